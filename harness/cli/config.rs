// Harnesses appended (as child module `verif_kani`) to cli/src/import/config.rs.
// C17: layered configuration: later documents override scalar settings, rewrite rules are concatenated.
#![allow(dead_code, unused_imports)]
use super::*;
use crate::vk;
use crate::vk_cover;

fn sid(s: &Option<String>) -> usize {
    match s {
        None => 0,
        Some(x) => x.as_ptr() as usize,
    }
}

struct Frag {
    f: Option<ConfigFragment>,
    account: usize,
    operator: usize,
    acct_type: Option<AccountType>,
    rule: usize,
}

fn draw_fragment(tag: &'static str) -> Frag {
    let has_account = vk::bool();
    let has_operator = vk::bool();
    let has_type = vk::bool();
    let liability = vk::bool();
    let has_rule = vk::bool();
    let account = if has_account { Some(String::from(tag)) } else { None };
    let operator = if has_operator { Some(String::from(tag)) } else { None };
    let acct_type = if has_type { Some(if liability { AccountType::Liability } else { AccountType::Asset }) } else { None };
    let mut rewrite = Vec::with_capacity(1);
    let mut rule = 0;
    if has_rule {
        let payee = Some(String::from(tag));
        rule = sid(&payee);
        rewrite.push(RewriteRule { matcher: RewriteMatcher::Or(Vec::new()), pending: false, payee, account: None, conversion: None });
    }
    let (a, o) = (sid(&account), sid(&operator));
    Frag {
        f: Some(ConfigFragment { path: String::from(tag), encoding: None, account, account_type: acct_type, operator, commodity: None, format: None, rewrite }),
        account: a,
        operator: o,
        acct_type,
        rule,
    }
}

fn later(a: usize, b: usize) -> usize {
    if b != 0 {
        b
    } else {
        a
    }
}

/// C17-H3: merging documents in order: a later document overrides each scalar it sets and leaves the
/// others, rewrite lists are concatenated in document order, the path is the last document's.
#[cfg_attr(kani, kani::proof)]
#[cfg_attr(kani, kani::unwind(5))]
pub fn c17_merge_3() {
    let mut f1 = draw_fragment("doc-1");
    let mut f2 = draw_fragment("doc-22");
    let mut f3 = draw_fragment("doc-333");
    vk::note(&|| format!("presence (account, operator, type, rule): {:?} {:?} {:?}",
        (f1.account != 0, f1.operator != 0, f1.acct_type, f1.rule != 0),
        (f2.account != 0, f2.operator != 0, f2.acct_type, f2.rule != 0),
        (f3.account != 0, f3.operator != 0, f3.acct_type, f3.rule != 0)));
    let merged = f1.f.take().unwrap().merge(f2.f.take().unwrap()).merge(f3.f.take().unwrap());
    assert!(sid(&merged.account) == later(later(f1.account, f2.account), f3.account), "C17: a later document does not override `account` (or an unset one erases it)");
    assert!(sid(&merged.operator) == later(later(f1.operator, f2.operator), f3.operator), "C17: a later document does not override `operator` (or an unset one erases it)");
    let want_type = f3.acct_type.or(f2.acct_type).or(f1.acct_type);
    assert!(merged.account_type == want_type, "C17: a later document does not override `account_type`");
    // rewrite rules concatenated in document order
    let mut want = [0usize; 3];
    let mut n = 0;
    if f1.rule != 0 { want[n] = f1.rule; n += 1; }
    if f2.rule != 0 { want[n] = f2.rule; n += 1; }
    if f3.rule != 0 { want[n] = f3.rule; n += 1; }
    assert!(merged.rewrite.len() == n, "C17: rewrite rules lost or duplicated by the merge");
    let mut i = 0;
    while i < 3 {
        if i < n {
            assert!(sid(&merged.rewrite[i].payee) == want[i], "C17: rewrite rules are not concatenated in document order");
        }
        i += 1;
    }
    vk_cover!(n == 3, "three rule lists concatenated");
    vk_cover!(f1.account != 0 && f2.account == 0 && f3.account != 0, "account overridden by the last document");
    vk_cover!(f1.account != 0 && f2.account == 0 && f3.account == 0, "account inherited from the first document");
    core::mem::forget(merged);
}

#[cfg(all(test, not(kani)))]
#[test]
fn verif_replay_entry() {
    crate::vk::replay_dispatch(&[("c17_merge_3", c17_merge_3 as fn())]);
}
