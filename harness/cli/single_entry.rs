// Harnesses appended (as child module `verif_kani`) to cli/src/import/single_entry.rs.
// C16: the double-entry transaction built from one statement row has the right sign, amount,
// counter-amount, rate attachment, posting order, balance assertion and pending mark.
//
// Names are concrete and drawn from a pool whose members all have different lengths, so a string is
// identified by its length (comparing contents through symbolically selected pointers is a memcmp
// blow-up under CBMC); values are compared as (mantissa, scale), which is stricter than numeric equality.
#![allow(dead_code, unused_imports)]
use super::*;
use crate::vk;
use crate::{vk_cover, vk_proof};

const SRC: &str = "Assets:Bank"; // 11
const DEST: &str = "Expenses:Food"; // 13
const INCOME_UNKNOWN_LEN: usize = 14; // "Income:Unknown"
const EXPENSES_UNKNOWN_LEN: usize = 16; // "Expenses:Unknown"
const PRIMARY: &str = "USD"; // 3
const SECONDARY: &str = "EURX"; // 4

fn dec(m: u16, neg: bool, scale: u32) -> Decimal {
    Decimal::from_parts(m as u32, 0, 0, neg, scale)
}

fn key(d: &Decimal) -> (i128, u32) {
    (d.mantissa(), d.scale())
}

/// (value, commodity length) of a literal amount expression.
fn lit<'a>(e: &'a syntax::expr::ValueExpr<'a>) -> (Decimal, usize) {
    match e {
        syntax::expr::ValueExpr::Amount(a) => (a.value.value, a.commodity.len()),
        _ => panic!("C16: a statement amount became a parenthesised expression"),
    }
}

fn date0() -> NaiveDate {
    NaiveDate::from_ymd_opt(2024, 3, 5).unwrap()
}

struct Shape {
    m: u16,
    neg: bool,
    has_dest: bool,
    clear: u8,
    has_balance: bool,
    bm: u16,
    bneg: bool,
    has_tr: bool,
    tm: u16,
    tneg: bool,
    rate_mode: u8,
    rm: u16,
}

fn draw(conversion: bool) -> Shape {
    let s = Shape {
        m: vk::u16(),
        neg: vk::bool(),
        has_dest: vk::bool(),
        clear: vk::below(3),
        has_balance: vk::bool(),
        bm: vk::u16(),
        bneg: vk::bool(),
        has_tr: vk::bool(),
        tm: vk::u16(),
        tneg: vk::bool(),
        rate_mode: vk::below(3),
        rm: vk::u16(),
    };
    if !conversion {
        vk::assume(!s.has_tr && s.rate_mode == 0);
    }
    vk::assume(s.rm != 0);
    s
}

fn build(s: &Shape) -> Txn {
    let mut txn = Txn::new(date0(), "payee", OwnedAmount { value: dec(s.m, s.neg, 2), commodity: PRIMARY.to_string() });
    if s.has_dest {
        txn.dest_account(DEST);
    }
    match s.clear {
        1 => {
            txn.clear_state(syntax::ClearState::Pending);
        }
        2 => {
            txn.clear_state(syntax::ClearState::Cleared);
        }
        _ => {}
    }
    if s.has_balance {
        txn.balance(OwnedAmount { value: dec(s.bm, s.bneg, 2), commodity: PRIMARY.to_string() });
    }
    if s.has_tr {
        txn.transferred_amount(OwnedAmount { value: dec(s.tm, s.tneg, 2), commodity: SECONDARY.to_string() });
    }
    match s.rate_mode {
        // price of the primary commodity, stated in the secondary: attached to amounts in PRIMARY
        1 => {
            txn.add_rate(CommodityPair { source: SECONDARY.to_string(), target: PRIMARY.to_string() }, dec(s.rm, false, 4)).ok().expect("distinct commodities");
        }
        // price of the secondary commodity, stated in the primary: attached to amounts in SECONDARY
        2 => {
            txn.add_rate(CommodityPair { source: PRIMARY.to_string(), target: SECONDARY.to_string() }, dec(s.rm, false, 4)).ok().expect("distinct commodities");
        }
        _ => {}
    }
    txn
}

fn check(s: &Shape) {
    vk::note(&|| {
        format!(
            "row amount {}{} (1/100 {}), dest {:?}, clear {}, balance {:?}, transferred {:?}, rate mode {} rate {}",
            if s.neg { "-" } else { "" }, s.m, PRIMARY, s.has_dest, s.clear,
            if s.has_balance { Some((s.bm, s.bneg)) } else { None },
            if s.has_tr { Some((s.tm, s.tneg)) } else { None }, s.rate_mode, s.rm
        )
    });
    let txn = build(s);
    let got = txn.to_double_entry(SRC);
    let amount = dec(s.m, s.neg, 2);
    if s.m == 0 {
        // a row moving nothing: the statement demands no particular booking, only that nothing crashes
        core::mem::forget(got);
        core::mem::forget(txn);
        return;
    }
    let t = match &got {
        Ok(t) => t,
        Err(_) => panic!("C16: a row with a non-zero amount was not booked"),
    };
    assert!(t.posts.len() == 2, "C16: a row without charges must book exactly two postings");
    assert!(t.date == date0() && t.effective_date.is_none(), "C16: transaction date is not the row's date");
    assert!(t.clear_state == syntax::ClearState::Cleared, "C16: imported transaction is not marked cleared");
    // Which posting is the configured account: the account posting comes first for a credit and last for a
    // debit. The two orders are checked on separate straight-line paths so that every access into the
    // posting vector has a concrete index (a symbolically selected element is a byte-level blow-up in CBMC).
    if s.neg {
        check_posts(s, &amount, &t.posts[1], &t.posts[0]);
    } else {
        check_posts(s, &amount, &t.posts[0], &t.posts[1]);
    }
    core::mem::forget(got);
    core::mem::forget(txn);
}

fn check_posts(s: &Shape, amount: &Decimal, ps: &syntax::plain::Posting, pd: &syntax::plain::Posting) {
    assert!(ps.account.len() == SRC.len(), "C16: the posting on the configured account is not where it belongs (first for a credit, last for a debit)");
    // the configured account moves by the row's amount
    let pa = ps.amount.as_ref().expect("account posting has an amount");
    let (v, c) = lit(&pa.amount);
    assert!(key(&v) == key(amount), "C16: the configured account does not move by the row's amount (sign or value)");
    assert!(c == PRIMARY.len(), "C16: the account posting is not in the row's commodity");
    // counter account
    let want_dest = if s.has_dest { DEST.len() } else if s.neg { EXPENSES_UNKNOWN_LEN } else { INCOME_UNKNOWN_LEN };
    assert!(pd.account.len() == want_dest, "C16: wrong counter account (Income:Unknown for credits, Expenses:Unknown for debits when no rule assigns one)");
    let da = pd.amount.as_ref().expect("counter posting has an amount");
    let (dv, dc) = lit(&da.amount);
    if s.has_tr {
        assert!(dc == SECONDARY.len(), "C16: with a conversion the counter-posting must carry the secondary amount");
        assert!(dv.mantissa().unsigned_abs() == s.tm as u128 && dv.scale() == 2, "C16: the secondary amount changed value");
        if s.tm != 0 {
            assert!(dv.is_sign_negative() == !s.neg, "C16: the counter-posting does not have the opposite sign of the account posting");
        }
    } else {
        assert!(dc == PRIMARY.len(), "C16: counter-posting commodity");
        assert!(dv.mantissa() == -amount.mantissa() && dv.scale() == 2, "C16: the counter-posting does not carry the opposite amount");
    }
    // the stated rate is attached to the commodity it prices, and only there
    let rate_on = |p: &syntax::plain::PostingAmount, commodity_len: usize| -> bool {
        let priced = match s.rate_mode {
            1 => commodity_len == PRIMARY.len(),
            2 => commodity_len == SECONDARY.len(),
            _ => false,
        };
        match &p.cost {
            None => !priced,
            Some(syntax::Exchange::Rate(e)) => {
                let (rv, rc) = lit(e);
                let want_c = if s.rate_mode == 1 { SECONDARY.len() } else { PRIMARY.len() };
                priced && key(&rv) == key(&dec(s.rm, false, 4)) && rc == want_c
            }
            Some(_) => false,
        }
    };
    assert!(rate_on(pa, c), "C16: rate missing from / wrongly attached to the account posting");
    assert!(rate_on(da, dc), "C16: rate missing from / wrongly attached to the counter-posting");
    assert!(pa.lot.price.is_none() && da.lot.price.is_none(), "C16: importer invented a lot price");
    // running-balance column -> assertion on the configured account only
    match (&ps.balance, s.has_balance) {
        (None, false) => {}
        (Some(b), true) => {
            let (bv, bc) = lit(b);
            assert!(key(&bv) == key(&dec(s.bm, s.bneg, 2)) && bc == PRIMARY.len(), "C16: balance assertion differs from the statement's running balance");
        }
        _ => panic!("C16: running balance lost or invented"),
    }
    assert!(pd.balance.is_none(), "C16: balance assertion placed on the counter account");
    // pending mark
    let want_clear = match s.clear {
        1 => syntax::ClearState::Pending,
        2 => syntax::ClearState::Cleared,
        _ => if s.has_dest { syntax::ClearState::Uncleared } else { syntax::ClearState::Pending },
    };
    assert!(pd.clear_state == want_clear, "C16: pending mark of the counter-posting");
    assert!(ps.clear_state == syntax::ClearState::Uncleared, "C16: the account posting must carry no mark");
}

/// C16-H1: row without conversion: every amount/sign, optional counter account, explicit clear state,
/// optional running balance.
vk_proof! { unwind 6; fn c16_double_entry_plain() {
    let s = draw(false);
    check(&s);
    vk_cover!(s.neg && s.m != 0 && s.has_balance, "debit row with running balance");
    vk_cover!(!s.neg && s.m != 0 && !s.has_dest, "credit row matched by no rule");
    vk_cover!(s.m == 0, "row with amount zero");
} }

/// C16-H2: row with a conversion: secondary amount of either sign as extracted, rate keyed on either commodity.
vk_proof! { unwind 6; fn c16_double_entry_conversion() {
    let s = draw(true);
    check(&s);
    vk_cover!(s.has_tr && s.rate_mode == 1 && s.neg && s.m != 0, "debit with secondary amount, rate prices the primary commodity");
    vk_cover!(s.has_tr && s.rate_mode == 2 && !s.neg && s.m != 0, "credit with secondary amount, rate prices the secondary commodity");
    vk_cover!(!s.has_tr && s.rate_mode == 1 && s.m != 0, "rate without secondary amount");
} }

/// C16-H3: add_rate rejects a rate of a commodity in itself and a second, different rate for the same
/// commodity; repeating the same rate is accepted.
vk_proof! { unwind 6; fn c16_add_rate() {
    let same = vk::bool();
    let r1 = vk::u16();
    let r2 = vk::u16();
    let src2_primary = vk::bool();
    vk::note(&|| format!("same-commodity {} rates {} then {} (second source primary: {})", same, r1, r2, src2_primary));
    let mut txn = Txn::new(date0(), "payee", OwnedAmount { value: dec(1, false, 0), commodity: PRIMARY.to_string() });
    if same {
        let r = txn.add_rate(CommodityPair { source: PRIMARY.to_string(), target: PRIMARY.to_string() }, dec(r1, false, 4));
        assert!(r.is_err(), "C16: a rate of a commodity in itself was accepted");
        assert!(txn.rates.len() == 0, "C16: rejected rate was stored");
    } else {
        let r = txn.add_rate(CommodityPair { source: PRIMARY.to_string(), target: SECONDARY.to_string() }, dec(r1, false, 4));
        assert!(r.is_ok(), "C16: a well-formed rate was rejected");
        let src2 = if src2_primary { PRIMARY } else { "CHFXX" };
        let r = txn.add_rate(CommodityPair { source: src2.to_string(), target: SECONDARY.to_string() }, dec(r2, false, 4));
        let identical = src2_primary && r1 == r2;
        assert!(r.is_ok() == identical, "C16: two distinct rates for one commodity must be rejected, a repeated one accepted");
    }
    vk_cover!(!same && src2_primary && r1 == r2, "same rate twice");
    vk_cover!(!same && r1 != r2, "conflicting rates");
    core::mem::forget(txn);
} }


#[cfg(all(test, not(kani)))]
#[test]
fn verif_replay_entry() {
    crate::vk::replay_dispatch(&[
        ("c16_double_entry_plain", c16_double_entry_plain as fn()),
        ("c16_double_entry_conversion", c16_double_entry_conversion as fn()),
        ("c16_add_rate", c16_add_rate as fn()),
    ]);
}
