// Harnesses appended (as child module `verif_kani`) to cli/src/import/extract.rs.
// C17: rewrite rules resolve as documented. The regex engine is replaced by a *nondeterministic
// matcher*: whether a field matcher hits and what its `payee` / `code` groups capture are solver
// variables, so one query covers every regex / record combination with that outcome structure.
#![allow(dead_code, unused_imports)]
use super::*;
use crate::vk;
use crate::vk_cover;

static PAYEES: [&str; 3] = ["payee-0", "payee-1", "payee-2"];
static CODES: [&str; 2] = ["code-0", "code-1"];
static ACCOUNTS: [&str; 2] = ["Expenses:A0", "Expenses:A1"];

/// Pool index -> Option<&'static str> (0 = None).
fn pick(pool: &'static [&'static str], i: u8) -> Option<&'static str> {
    match i {
        0 => None,
        1 => Some(pool[0]),
        2 => Some(pool[1]),
        _ => Some(pool[2 % pool.len()]),
    }
}

/// Identity of an optional pooled string (pointer, never content).
fn ident(s: Option<&str>) -> usize {
    match s {
        None => 0,
        Some(x) => x.as_ptr() as usize,
    }
}

#[derive(Debug, Clone, Copy)]
pub struct NdMatcher {
    hit: bool,
    /// when non-zero: hits only if the fragment's current payee is PAYEES[needs_payee - 1]
    needs_payee: u8,
    payee: u8,
    code: u8,
}

impl<'a> Entity<'a> for NdMatcher {
    type T = ();
}

impl TryFrom<(config::RewriteField, &str)> for NdMatcher {
    type Error = ImportError;
    fn try_from(_: (config::RewriteField, &str)) -> Result<Self, ImportError> {
        Err(ImportError::InvalidConfig("NdMatcher is built by the harness"))
    }
}

impl NdMatcher {
    fn hits(&self, current_payee: usize) -> bool {
        self.hit && (self.needs_payee == 0 || current_payee == ident(pick(&PAYEES, self.needs_payee)))
    }
}

impl EntityMatcher for NdMatcher {
    fn captures<'a>(&self, fragment: &Fragment<'a>, _entity: ()) -> Option<Matched<'a>> {
        if self.hits(ident(fragment.payee)) {
            Some(Matched { payee: pick(&PAYEES, self.payee), code: pick(&CODES, self.code) })
        } else {
            None
        }
    }
}

fn draw_matcher(payee_dependent: bool) -> NdMatcher {
    let hit = vk::bool();
    let payee = vk::below(3); // none, payee-0, payee-1
    let code = vk::below(3); // none, code-0, code-1
    let needs_payee = if payee_dependent { vk::below(3) } else { 0 };
    NdMatcher { hit, needs_payee, payee, code }
}

#[derive(Clone, Copy)]
struct RuleSpec {
    /// OR[ AND[m0, m1], AND[m2] ]
    m: [NdMatcher; 3],
    pending: bool,
    account: u8, // 0 none, 1 A0, 2 A1
}

fn draw_rule(payee_dependent: bool) -> RuleSpec {
    let m = [draw_matcher(payee_dependent), draw_matcher(payee_dependent), draw_matcher(payee_dependent)];
    let pending = vk::bool();
    let account = vk::below(3);
    RuleSpec { m, pending, account }
}

fn build_rule(r: &RuleSpec) -> ExtractRule<'static, NdMatcher> {
    let mut and0 = Vec::with_capacity(2);
    and0.push(r.m[0]);
    and0.push(r.m[1]);
    let mut and1 = Vec::with_capacity(1);
    and1.push(r.m[2]);
    let mut or = Vec::with_capacity(2);
    or.push(MatchAndExpr(and0));
    or.push(MatchAndExpr(and1));
    ExtractRule { match_expr: MatchOrExpr(or), pending: r.pending, payee: None, account: pick(&ACCOUNTS, r.account), conversion: None }
}

/// Reference fold, written from the statement of C17.
#[derive(Clone, Copy, PartialEq, Eq)]
struct RefFrag {
    cleared: bool,
    payee: usize,
    code: usize,
    account: usize,
}

fn or_id(new: usize, old: usize) -> usize {
    if new != 0 {
        new
    } else {
        old
    }
}

fn ref_and(group: &[NdMatcher], start: RefFrag) -> Option<RefFrag> {
    // an element matches only if all its fields do; captures set payee and code, each field matcher
    // seeing the payee as rewritten so far
    let mut f = start;
    let mut i = 0;
    while i < group.len() {
        let m = &group[i];
        if !m.hits(f.payee) {
            return None;
        }
        f.payee = or_id(ident(pick(&PAYEES, m.payee)), f.payee);
        f.code = or_id(ident(pick(&CODES, m.code)), f.code);
        i += 1;
    }
    Some(f)
}

fn ref_rule(r: &RuleSpec, frag: RefFrag) -> RefFrag {
    // an OR-list matches if any element does (first matching element supplies the captures)
    let matched = match ref_and(&r.m[0..2], frag) {
        Some(f) => Some(f),
        None => ref_and(&r.m[2..3], frag),
    };
    match matched {
        None => frag,
        Some(mut f) => {
            let acc = ident(pick(&ACCOUNTS, r.account));
            if acc != 0 {
                // its `account` replaces any earlier account; pending unless some matching
                // account-assigning rule is not flagged pending
                f.account = acc;
                f.cleared = f.cleared || !r.pending;
            }
            f
        }
    }
}

fn check_fold<const R: usize>(payee_dependent: bool) -> (bool, bool) {
    let mut specs = [RuleSpec { m: [NdMatcher { hit: false, needs_payee: 0, payee: 0, code: 0 }; 3], pending: false, account: 0 }; R];
    let mut i = 0;
    while i < R {
        specs[i] = draw_rule(payee_dependent);
        i += 1;
    }
    vk::note(&|| format!("rules: {:?}", specs.iter().map(|s| (s.m, s.pending, s.account)).collect::<Vec<_>>()));
    let mut rules = Vec::with_capacity(R);
    let mut i = 0;
    while i < R {
        rules.push(build_rule(&specs[i]));
        i += 1;
    }
    let ex: Extractor<'static, NdMatcher> = Extractor { rules };
    let ex: &'static Extractor<'static, NdMatcher> = Box::leak(Box::new(ex));
    let got = ex.extract(());
    let mut want = RefFrag { cleared: false, payee: 0, code: 0, account: 0 };
    let mut i = 0;
    while i < R {
        want = ref_rule(&specs[i], want);
        i += 1;
    }
    assert!(ident(got.payee) == want.payee, "C17: payee after the rule fold differs from the documented resolution");
    assert!(ident(got.code) == want.code, "C17: code after the rule fold differs from the documented resolution");
    assert!(ident(got.account) == want.account, "C17: account after the rule fold differs from the documented resolution (later matching account replaces earlier)");
    assert!(got.cleared == want.cleared, "C17: pending/cleared state differs from 'pending unless some matching account-assigning rule is not pending'");
    assert!(got.conversion.is_none(), "C17: conversion appeared from nowhere");
    (want.account != 0, want.cleared)
}

#[cfg_attr(kani, kani::proof)]
#[cfg_attr(kani, kani::unwind(5))]
pub fn c17_rule_fold_2() {
    let o = check_fold::<2>(false);
    vk_cover!(o.0 && o.1, "account assigned and cleared");
    vk_cover!(o.0 && !o.1, "account assigned but pending");
    vk_cover!(!o.0, "no account-assigning rule matched");
}

#[cfg_attr(kani, kani::proof)]
#[cfg_attr(kani, kani::unwind(5))]
pub fn c17_rule_fold_payee_dependent_2() {
    let o = check_fold::<2>(true);
    vk_cover!(o.0 && o.1, "account assigned and cleared");
    vk_cover!(!o.0, "no account-assigning rule matched");
}

#[cfg_attr(kani, kani::proof)]
#[cfg_attr(kani, kani::unwind(5))]
pub fn c17_rule_fold_3() {
    let o = check_fold::<3>(false);
    vk_cover!(o.0 && o.1, "account assigned and cleared");
    vk_cover!(!o.0, "no account-assigning rule matched");
}

#[cfg(all(test, not(kani)))]
#[test]
fn verif_replay_entry() {
    crate::vk::replay_dispatch(&[
        ("c17_rule_fold_2", c17_rule_fold_2 as fn()),
        ("c17_rule_fold_payee_dependent_2", c17_rule_fold_payee_dependent_2 as fn()),
        ("c17_rule_fold_3", c17_rule_fold_3 as fn()),
    ]);
}
