// Harnesses appended (as child module `verif_kani`) to cli/src/import/csv.rs.
// C16: sign of the amount a CSV row books on the configured account (credit positive, debit negative;
// an `amount` column negated for a liability account).
//
// The number parser behind `str_to_comma_decimal` is the winnow grammar (not solver-reachable, DESIGN
// C05/C07); under Kani it is replaced by a stub that maps the *marker text* of a column to a solver
// chosen decimal ("" -> no value, "c.." / "d.." / "a.." -> the credit / debit / amount value,
// anything else -> a parse error). Natively (replay) the columns hold the printed numbers and the
// real parser runs.
#![allow(dead_code, unused_imports)]
use super::*;
use crate::vk;
use crate::vk_cover;

static mut VALS: [Option<Decimal>; 3] = [None, None, None];

/// Columns of the record under test. Building a real `csv::StringRecord` (two growing byte/offset
/// buffers) does not get through CBMC (measured: 12-17 GB for a three-column record), so under Kani
/// `StringRecord::get` is stubbed to read this table; natively the real record is built and read.
static mut FIELDS: [&'static str; 4] = ["", "", "", ""];
static mut NFIELDS: usize = 0;

#[cfg(kani)]
pub(crate) fn record_get_stub<'a>(_r: &'a csv::StringRecord, i: usize) -> Option<&'a str> {
    unsafe {
        if i < NFIELDS {
            Some(FIELDS[i])
        } else {
            None
        }
    }
}

fn record(fields: &[&'static str]) -> csv::StringRecord {
    #[cfg(kani)]
    {
        unsafe {
            NFIELDS = fields.len();
            let mut i = 0;
            while i < fields.len() {
                FIELDS[i] = fields[i];
                i += 1;
            }
        }
        csv::StringRecord::new()
    }
    #[cfg(not(kani))]
    {
        csv::StringRecord::from(fields.to_vec())
    }
}

#[cfg(kani)]
pub(crate) fn str_to_comma_decimal_stub(input: &str) -> Result<Option<Decimal>, ImportError> {
    if input.is_empty() {
        return Ok(None);
    }
    let v = unsafe {
        match input.as_bytes()[0] {
            b'c' => VALS[0],
            b'd' => VALS[1],
            b'a' => VALS[2],
            _ => None,
        }
    };
    match v {
        Some(v) => Ok(Some(v)),
        None => Err(ImportError::InvalidFlag("not a number")),
    }
}

/// Template-valued fields (`{a}-{b}` column expressions) are outside these harnesses: CBMC cannot
/// resolve the niche-encoded `Field` discriminant, so the `Field::Template` arm of `resolve` would drag
/// the real std HashMap (`all_fields`) into the query. Cut at the template's value lookup.
#[cfg(kani)]
pub(crate) fn query_cut<'a>(_s: &MappedRecord<'a>, _k: TemplateKey) -> Option<&'a str>
where
    'a: 'a,
{
    kani::assume(false);
    None
}

fn dec(m: u16, neg: bool) -> Decimal {
    Decimal::from_parts(m as u32, 0, 0, neg, 2)
}

fn key(d: &Decimal) -> (i128, u32) {
    (d.mantissa(), d.scale())
}

/// Column text standing for value `v` with marker `tag` (0 = empty column, 3 = text that is not a number).
fn text(tag: u8, marker: &'static str, v: &Decimal) -> &'static str {
    match tag {
        0 => "",
        3 => "x",
        _ => {
            #[cfg(kani)]
            {
                let _ = v;
                marker
            }
            #[cfg(not(kani))]
            {
                let _ = marker;
                Box::leak(v.to_string().into_boxed_str())
            }
        }
    }
}

/// A FieldMap for the given value columns; `all_fields` (a std HashMap, never consulted for
/// column-index fields) is left uninitialised and the map is forgotten by the caller.
fn field_map(value: TxnValueField, max_column: usize) -> core::mem::ManuallyDrop<FieldMap> {
    let mut fm = core::mem::MaybeUninit::<FieldMap>::uninit();
    let p = fm.as_mut_ptr();
    unsafe {
        core::ptr::addr_of_mut!((*p).date).write(Field::ColumnIndex(0));
        core::ptr::addr_of_mut!((*p).payee).write(Field::ColumnIndex(1));
        core::ptr::addr_of_mut!((*p).value).write(value);
        core::ptr::addr_of_mut!((*p).max_column).write(max_column);
        #[cfg(not(kani))]
        core::ptr::addr_of_mut!((*p).all_fields).write(HashMap::new());
        core::mem::ManuallyDrop::new(fm.assume_init())
    }
}

fn cd_case(ctag: u8, dtag: u8, cv: Decimal, dv: Decimal, liability: bool) {
    let (ct, dt) = (text(ctag, "c", &cv), text(dtag, "d", &dv));
    let rec = record(&["2024-03-05", "payee", ct, dt]);
    let fm = field_map(TxnValueField::CreditDebit { credit: Field::ColumnIndex(2), debit: Field::ColumnIndex(3) }, 3);
    let at = if liability { config::AccountType::Liability } else { config::AccountType::Asset };
    let got = fm.amount(at, &rec);
    match (ctag, dtag) {
        (0, 0) => assert!(got.is_err(), "C16: a row with neither credit nor debit was booked"),
        (1 | 2, 0) => match &got {
            Ok(v) => assert!(key(v) == key(&cv), "C16: a credit must move the account by +credit"),
            Err(_) => panic!("C16: a credit row was rejected"),
        },
        (0, 1 | 2) => match &got {
            Ok(v) => assert!(v.mantissa() == -dv.mantissa() && v.scale() == 2, "C16: a debit must move the account by -debit"),
            Err(_) => panic!("C16: a debit row was rejected"),
        },
        (3, 0) | (0, 3) => assert!(got.is_err(), "C16: a column that is not a number was booked as some value"),
        _ => {} // both columns filled: not specified by the statement
    }
    core::mem::forget(got);
    core::mem::forget(rec);
}

/// C16-H4: credit / debit columns. The shape of the record (which column is empty) is concrete per case -
/// a symbolic field length makes csv's buffer growth a symbolic-size allocation (measured: 17 GB) - the
/// values, their signs and the account type are symbolic.
#[cfg_attr(kani, kani::proof)]
#[cfg_attr(kani, kani::unwind(6))]
#[cfg_attr(kani, kani::stub(alloc::fmt::format, crate::verif_env::fmt_format_stub))]
#[cfg_attr(kani, kani::stub(crate::import::csv::str_to_comma_decimal, crate::import::csv::verif_kani::str_to_comma_decimal_stub))]
#[cfg_attr(kani, kani::stub(<crate::import::csv::MappedRecord as crate::import::template::RenderValue>::query, crate::import::csv::verif_kani::query_cut))]
#[cfg_attr(kani, kani::stub(csv::StringRecord::get, crate::import::csv::verif_kani::record_get_stub))]
pub fn c16_amount_credit_debit() {
    let cm = vk::u16();
    let cneg = vk::bool();
    let dm = vk::u16();
    let dneg = vk::bool();
    let liability = vk::bool();
    let (cv, dv) = (dec(cm, cneg), dec(dm, dneg));
    vk::note(&|| format!("credit value {} debit value {} liability {}", cv, dv, liability));
    unsafe {
        VALS = [Some(cv), Some(dv), None];
    }
    cd_case(1, 0, cv, dv, liability);
    cd_case(0, 1, cv, dv, liability);
    vk_cover!(cm != 0 && dm != 0 && liability, "non-zero values, liability account");
}

/// C16-H4b: rows that must be rejected: neither column filled, or a column that is not a number.
#[cfg_attr(kani, kani::proof)]
#[cfg_attr(kani, kani::unwind(6))]
#[cfg_attr(kani, kani::stub(alloc::fmt::format, crate::verif_env::fmt_format_stub))]
#[cfg_attr(kani, kani::stub(crate::import::csv::str_to_comma_decimal, crate::import::csv::verif_kani::str_to_comma_decimal_stub))]
#[cfg_attr(kani, kani::stub(<crate::import::csv::MappedRecord as crate::import::template::RenderValue>::query, crate::import::csv::verif_kani::query_cut))]
#[cfg_attr(kani, kani::stub(csv::StringRecord::get, crate::import::csv::verif_kani::record_get_stub))]
pub fn c16_amount_rejected() {
    let liability = vk::bool();
    let z = dec(0, false);
    vk::note(&|| format!("liability {}", liability));
    unsafe {
        VALS = [Some(z), Some(z), None];
    }
    cd_case(0, 0, z, z, liability);
    cd_case(3, 0, z, z, liability);
    cd_case(0, 3, z, z, liability);
    vk_cover!(liability, "liability account");
}

fn amount_case(atag: u8, av: Decimal, liability: bool) {
    let a = text(atag, "a", &av);
    let rec = record(&["2024-03-05", "payee", a]);
    let fm = field_map(TxnValueField::Amount(Field::ColumnIndex(2)), 2);
    let at = if liability { config::AccountType::Liability } else { config::AccountType::Asset };
    let got = fm.amount(at, &rec);
    match atag {
        1 | 2 => match &got {
            Ok(v) => {
                if liability {
                    assert!(v.mantissa() == -av.mantissa() && v.scale() == 2, "C16: an amount column must be negated for a liability account");
                } else {
                    assert!(key(v) == key(&av), "C16: an amount column must be booked as is for an asset account");
                }
            }
            Err(_) => panic!("C16: an amount row was rejected"),
        },
        3 => assert!(got.is_err(), "C16: a column that is not a number was booked as some value"),
        _ => {} // empty amount column: booked as zero today, not specified
    }
    core::mem::forget(got);
    core::mem::forget(rec);
}

/// C16-H5: a single `amount` column, asset vs. liability account.
#[cfg_attr(kani, kani::proof)]
#[cfg_attr(kani, kani::unwind(6))]
#[cfg_attr(kani, kani::stub(alloc::fmt::format, crate::verif_env::fmt_format_stub))]
#[cfg_attr(kani, kani::stub(crate::import::csv::str_to_comma_decimal, crate::import::csv::verif_kani::str_to_comma_decimal_stub))]
#[cfg_attr(kani, kani::stub(<crate::import::csv::MappedRecord as crate::import::template::RenderValue>::query, crate::import::csv::verif_kani::query_cut))]
#[cfg_attr(kani, kani::stub(csv::StringRecord::get, crate::import::csv::verif_kani::record_get_stub))]
pub fn c16_amount_column() {
    let am = vk::u16();
    let aneg = vk::bool();
    let liability = vk::bool();
    let av = dec(am, aneg);
    vk::note(&|| format!("amount value {} liability {}", av, liability));
    unsafe {
        VALS = [None, None, Some(av)];
    }
    amount_case(1, av, liability);
    amount_case(3, av, liability);
    amount_case(0, av, liability);
    vk_cover!(liability && am != 0, "liability amount");
    vk_cover!(!liability && aneg && am != 0, "negative asset amount");
}

#[cfg(all(test, not(kani)))]
#[test]
fn verif_replay_entry() {
    crate::vk::replay_dispatch(&[
        ("c16_amount_credit_debit", c16_amount_credit_debit as fn()),
        ("c16_amount_column", c16_amount_column as fn()),
        ("c16_amount_rejected", c16_amount_rejected as fn()),
    ]);
}
