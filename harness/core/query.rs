// Harnesses appended (as child module `verif_kani`) to core/src/report/query.rs.
// C04: date ranges; C10: conversion.
#![allow(dead_code, unused_imports)]
use super::*;
use crate::vk;
use crate::report::eval::{PostingAmount, SingleAmount};
use crate::{vk_cover, vk_proof, vk_proof_models};

fn any_date() -> NaiveDate {
    // every representable NaiveDate: year in chrono's range, ordinal 1..=366
    let yu = vk::u32();
    let neg = vk::bool();
    let o = vk::u16() as u32;
    vk::assume(yu <= 262_143);
    let y = if neg { -(yu as i32) } else { yu as i32 };
    vk::assume(y >= -262_143 && y <= 262_142);
    let d = NaiveDate::from_yo_opt(y, o);
    vk::assume(d.is_some());
    d.unwrap()
}

/// C04-H1: DateRange::contains is exactly start <= d < end with absent bounds unbounded,
/// for every representable date.
#[cfg_attr(kani, kani::proof)]
pub fn c04_date_range_contains() {
    let has_start = vk::bool();
    let has_end = vk::bool();
    let start = any_date();
    let end = any_date();
    let d = any_date();
    vk::note(&|| format!("start {:?} end {:?} date {}", if has_start { Some(start) } else { None }, if has_end { Some(end) } else { None }, d));
    let r = DateRange { start: if has_start { Some(start) } else { None }, end: if has_end { Some(end) } else { None } };
    let want = (!has_start || start <= d) && (!has_end || d < end);
    assert!(r.contains(d) == want, "C04: date range is not [start, end)");
    assert!(r.is_bypass() == (!has_start && !has_end), "C04: a bounded range is treated as the whole history");
    // adjacent ranges partition: d in [a,c) <=> d in [a,b) xor d in [b,c), for a <= b <= c
    let b = any_date();
    if has_start && has_end && start <= b && b <= end {
        let left = DateRange { start: Some(start), end: Some(b) };
        let right = DateRange { start: Some(b), end: Some(end) };
        assert!(r.contains(d) == (left.contains(d) ^ right.contains(d)), "C04: adjacent ranges do not partition their union");
        assert!(!(left.contains(d) && right.contains(d)), "C04: a date is counted in two adjacent ranges");
    }
    vk_cover!(has_start && d == start, "on the start boundary");
    vk_cover!(has_end && d == end, "on the end boundary");
}


use crate::report::book_keeping::verif_kani::{account, commodity, dec16};
use crate::report::eval::verif_kani::amount_verif::{n_entries, part};
use bumpalo::collections as bcc;
use rust_decimal::Decimal;

fn day(off: u8) -> NaiveDate {
    NaiveDate::from_ymd_opt(2024, 1, 1 + off as u32).unwrap()
}

fn mk_txn<'ctx>(arena: &'ctx bumpalo::Bump, date: NaiveDate, posts: &[(Account<'ctx>, Decimal, Commodity<'ctx>)]) -> Transaction<'ctx> {
    let mut v = bcc::Vec::with_capacity_in(posts.len(), arena);
    for (a, d, c) in posts {
        v.push(Posting { account: *a, amount: Amount::from_value(*d, *c), converted_amount: None });
    }
    Transaction { date, postings: v.into_boxed_slice() }
}

/// C04-H2: the range-recomputed balance equals the sum of the posting amounts of transactions dated in
/// [start, end); no (account, commodity) with an exactly zero total is shown.
/// Ledger: T1 (day d1): A v1 X.  T2 (day d2): A v2 X [, B w2 Y when `two_accounts`].
fn check_balance_range(two_accounts: bool) {
    let v1 = dec16(0);
    let v2 = dec16(0);
    let w2 = dec16(0);
    let d1 = vk::below(8);
    let d2 = vk::below(8);
    let s = vk::below(8);
    let e = vk::below(8);
    let has_s = vk::bool();
    let has_e = vk::bool();
    vk::note(&|| format!("T1 day{} A {} X; T2 day{} A {} X, B {} Y ({}); range start {:?} end {:?}", d1, v1, d2, v2, w2, two_accounts, if has_s { Some(s) } else { None }, if has_e { Some(e) } else { None }));
    let arena: &'static bumpalo::Bump = Box::leak(Box::new(bumpalo::Bump::new()));
    let ctx = ReportContext::new(arena);
    let (a, b) = (account(0), account(1));
    let (x, y) = (commodity(0), commodity(1));
    let t1 = mk_txn(arena, day(d1), &[(a, v1, x)]);
    let t2 = if two_accounts { mk_txn(arena, day(d2), &[(a, v2, x), (b, w2, y)]) } else { mk_txn(arena, day(d2), &[(a, v2, x)]) };
    let mut txns = Vec::with_capacity(2);
    txns.push(t1);
    txns.push(t2);
    let mut ledger = Ledger { transactions: txns, raw_balance: Balance::default(), price_repos: crate::report::price_db::PriceRepositoryBuilder::default().build() };
    let q = BalanceQuery { conversion: None, date_range: DateRange { start: if has_s { Some(day(s)) } else { None }, end: if has_e { Some(day(e)) } else { None } } };
    vk::assume(has_s || has_e); // the unbounded query returns the stored raw balance (c04_raw_vs_recompute)
    let in1 = (!has_s || s <= d1) && (!has_e || d1 < e);
    let in2 = (!has_s || s <= d2) && (!has_e || d2 < e);
    let want_a = (if in1 { v1 } else { Decimal::ZERO }) + (if in2 { v2 } else { Decimal::ZERO });
    let want_b = if in2 && two_accounts { w2 } else { Decimal::ZERO };
    let got = ledger.balance(&ctx, &q).expect("no conversion requested").into_owned();
    let (ga, ha) = match got.get(&a) { Some(am) => part(am, x), None => (Decimal::ZERO, false) };
    let (gb, hb) = match got.get(&b) { Some(am) => part(am, y), None => (Decimal::ZERO, false) };
    assert!(ga == want_a, "C04: balance of an account differs from the sum of its postings dated in [start, end)");
    assert!(gb == want_b, "C04: balance of a second account differs from the sum of its postings dated in [start, end)");
    assert!(ha == !want_a.is_zero() && hb == !want_b.is_zero(), "C04: a commodity with zero total is shown (or a non-zero one dropped)");
    vk_cover!(in1 && !in2, "first transaction only");
    vk_cover!(!in1 && in2, "second transaction only");
    vk_cover!(in1 && in2 && want_a.is_zero() && !v1.is_zero(), "postings cancel to zero");
    vk_cover!(has_e && e == d2 && has_s && s == d1, "range from the first to (excluding) the second transaction date");
    core::mem::forget(got);
    core::mem::forget(ledger);
    core::mem::forget(ctx);
}

vk_proof_models! {
    #[cfg_attr(kani, kani::stub(crate::report::price_db::convert_amount, crate::report::price_db::verif_kani::cut_convert_amount))]
    unwind 4; fn c04_balance_range_1() { check_balance_range(false); } }
vk_proof_models! {
    #[cfg_attr(kani, kani::stub(crate::report::price_db::convert_amount, crate::report::price_db::verif_kani::cut_convert_amount))]
    unwind 6; fn c04_balance_range_2() { check_balance_range(true); } }


/// C04 kernel (quick tier): the step of the re-fold `bal.add_amount(posting.account, amount)`:
/// from an arbitrary account balance over {X, Y}, adding an amount over {X, Y} (a deduced posting can
/// carry two commodities) gives the per-commodity sum, and no zero entry is kept — so the fold over
/// the postings in range is the sum of the register lines and never shows a zero commodity.
vk_proof_models! { unwind 6; fn c04_add_amount_kernel() {
    let a = dec16(0);
    let b = dec16(0);
    let v = dec16(0);
    let w = dec16(0);
    let two = vk::bool();
    let acc = account(0);
    let (x, y) = (commodity(0), commodity(1));
    let mut bal = Balance::default();
    bal.add_amount(acc, Amount::from_value(a, x));
    bal.add_amount(acc, Amount::from_value(b, y));
    vk::note(&|| format!("pre A: {} X, {} Y; adding {} X{}", a, b, v, if two { format!(" + {} Y", w) } else { String::new() }));
    let delta = if two { Amount::from_values([(v, x), (w, y)]) } else { Amount::from_value(v, x) };
    let want_x = a + v;
    let want_y = if two { b + w } else { b };
    let got = bal.add_amount(acc, delta);
    let (gx, hx) = part(got, x);
    let (gy, hy) = part(got, y);
    assert!(gx == want_x && gy == want_y, "C04: folding a posting into the balance is not per-commodity addition");
    assert!(hx == !want_x.is_zero() && hy == !want_y.is_zero(), "C04: a commodity with zero total is shown (or a non-zero one dropped)");
    vk_cover!(two && want_x.is_zero() && !want_y.is_zero() && !a.is_zero(), "one commodity cancels, the other stays");
    vk_cover!(want_x.is_zero() && want_y.is_zero() && !a.is_zero() && !b.is_zero(), "account becomes empty");
    core::mem::forget(bal);
} }

/// C04 kernel (quick tier): the incremental ("raw") balance is also written by balance *assignments*
/// (`A = e X` without amount -> Balance::set_partial). From an arbitrary account balance over {X, Y}:
/// the returned previous value is what was held in X, the account is left at exactly e X, Y is untouched,
/// and - like the re-fold path - no zero entry is kept, so the whole-history report agrees with the
/// range-recomputed one and never shows a zero commodity. Bare `= 0` empties the account.
vk_proof_models! { unwind 6; fn c04_set_partial_kernel() {
    let a = dec16(0);
    let b = dec16(0);
    let e = dec16(0);
    let bare = vk::bool();
    let acc = account(0);
    let (x, y) = (commodity(0), commodity(1));
    let mut bal = Balance::default();
    bal.add_amount(acc, Amount::from_value(a, x));
    bal.add_amount(acc, Amount::from_value(b, y));
    vk::note(&|| format!("pre A: {} X, {} Y; assignment {}", a, b, if bare { "= 0".to_string() } else { format!("= {} X", e) }));
    if bare {
        let r = bal.set_partial(acc, PostingAmount::Zero);
        let multi = !a.is_zero() && !b.is_zero();
        match &r {
            Err(_) => assert!(multi, "C04/C03: `= 0` rejected on an account holding at most one commodity"),
            Ok(prev) => {
                assert!(!multi, "C04/C03: `= 0` accepted on an account holding several commodities");
                let want = if !a.is_zero() { PostingAmount::Single(SingleAmount::from_value(a, x)) }
                    else if !b.is_zero() { PostingAmount::Single(SingleAmount::from_value(b, y)) } else { PostingAmount::Zero };
                assert!(*prev == want, "C04/C03: previous balance returned by `= 0`");
                let after = bal.get(&acc).expect("account present");
                assert!(crate::report::eval::verif_kani::amount_verif::n_entries(after) == 0, "C04: account not empty after `= 0`");
            }
        }
        core::mem::forget(r);
    } else {
        let r = bal.set_partial(acc, PostingAmount::Single(SingleAmount::from_value(e, x)));
        match &r {
            Ok(PostingAmount::Single(prev)) => assert!(prev.value == a && prev.commodity == x, "C04/C03: previous balance returned by the assignment"),
            _ => panic!("C04/C03: single-commodity assignment rejected"),
        }
        let after = bal.get(&acc).expect("account present");
        let (gx, hx) = part(after, x);
        let (gy, hy) = part(after, y);
        assert!(gx == e && gy == b, "C04/C03: the account is not left at the assigned value (or another commodity changed)");
        assert!(hx == !e.is_zero() && hy == !b.is_zero(), "C04: a commodity with zero total is shown after an assignment (or a non-zero one dropped)");
        core::mem::forget(r);
    }
    vk_cover!(!bare && e.is_zero() && !a.is_zero() && !b.is_zero(), "assignment to a commoditised zero on a two-commodity account");
    vk_cover!(bare && !a.is_zero() && b.is_zero(), "bare zero on a single-commodity account");
    core::mem::forget(bal);
} }

#[cfg(all(test, not(kani)))]
#[test]
fn verif_replay_entry() {
    crate::vk::replay_dispatch(&[
        ("c04_set_partial_kernel", c04_set_partial_kernel as fn()),
        ("c04_date_range_contains", c04_date_range_contains as fn()),
        ("c04_add_amount_kernel", c04_add_amount_kernel as fn()),
        ("c04_balance_range_1", c04_balance_range_1 as fn()),
        ("c04_balance_range_2", c04_balance_range_2 as fn()),
    ]);
}
