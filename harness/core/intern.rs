// Child of core/src/report/intern.rs.
#![allow(dead_code, unused_imports)]
use super::*;
use crate::vk;
use crate::vk_cover;

/// An interned string backed by a static: identity is the pointer, as in okane. Used by the
/// book-keeping / price / query harnesses so that no arena allocation and no string comparison
/// is needed to obtain accounts and commodities (DESIGN 2.2: bumpalo + interning dominate otherwise).
pub(crate) fn interned(s: &'static str) -> InternedStr<'static> {
    InternedStr(s)
}
