// Child of core/src/report/intern.rs.
#![allow(dead_code, unused_imports)]
use super::*;
use crate::vk;
use crate::{vk_cover, vk_proof_models};

/// An interned string backed by a static: identity is the pointer, as in okane. Used by the
/// book-keeping / price / query harnesses so that no arena allocation and no string comparison
/// is needed to obtain accounts and commodities (DESIGN 2.2: bumpalo + interning dominate otherwise).
pub(crate) fn interned(s: &'static str) -> InternedStr<'static> {
    InternedStr(s)
}


// ---------------------------------------------------------------------------------------------
// C12-H1: InternStore operation sequences against a reference alias table.
// ---------------------------------------------------------------------------------------------
#[derive(Clone, Copy, PartialEq, Eq)]
struct TestT<'a>(InternedStr<'a>);

impl<'a> FromInterned<'a> for TestT<'a> {
    fn from_interned(v: InternedStr<'a>) -> Self {
        TestT(v)
    }
    fn as_interned(&self) -> InternedStr<'a> {
        self.0
    }
}

fn name(i: u8) -> &'static str {
    match i {
        0 => "a",
        1 => "b",
        _ => "c",
    }
}

/// which pool name an interned value spells (by content: 1-byte names)
fn spelled(t: TestT<'_>) -> u8 {
    t.0.as_str().as_bytes()[0] - b'a'
}

#[derive(Clone, Copy, PartialEq, Eq)]
enum St {
    Unreg,
    Canon,
    Alias(u8),
}

fn check_sequence<const STEPS: usize>() -> (bool, bool, bool) {
    let arena: &'static Bump = Box::leak(Box::new(Bump::new()));
    let mut store: InternStore<'static, TestT<'static>> = InternStore::new(arena);
    let mut st = [St::Unreg; 3];
    // canonical values handed out so far, by name
    let mut canon: [Option<TestT<'static>>; 3] = [None; 3];
    let mut saw_alias_resolution = false;
    let mut saw_conflict_a = false;
    let mut saw_conflict_c = false;
    let mut step = 0;
    while step < STEPS {
        let op = vk::below(4);
        let n = vk::below(3);
        let c = vk::below(3);
        vk::note(&|| format!("step {}: op {} name {:?} canonical-arg {:?}", step, ["ensure", "insert_canonical", "insert_alias", "resolve"][op as usize], name(n), name(c)));
        let ni = n as usize;
        match op {
            0 => {
                let got = store.ensure(name(n));
                let want = match st[ni] {
                    St::Alias(j) => j,
                    _ => n,
                };
                assert!(spelled(got) == want, "C12: ensure does not return the canonical name");
                if let St::Alias(_) = st[ni] {
                    saw_alias_resolution = true;
                }
                if st[ni] == St::Unreg {
                    st[ni] = St::Canon;
                }
                match canon[want as usize] {
                    Some(prev) => assert!(prev == got, "C12: the same canonical name is interned twice (balances would split)"),
                    None => canon[want as usize] = Some(got),
                }
            }
            1 => {
                let got = store.insert_canonical(name(n));
                match st[ni] {
                    St::Alias(_) => {
                        assert!(got == Err(InternError::AlreadyAlias), "C12: declaring an alias name as canonical is not rejected");
                        saw_conflict_a = true;
                    }
                    _ => {
                        let t = match got {
                            Ok(t) => t,
                            Err(_) => panic!("C12: canonical declaration of a free or canonical name rejected"),
                        };
                        assert!(spelled(t) == n, "C12: insert_canonical returns a different name");
                        st[ni] = St::Canon;
                        match canon[ni] {
                            Some(prev) => assert!(prev == t, "C12: the same canonical name is interned twice (balances would split)"),
                            None => canon[ni] = Some(t),
                        }
                    }
                }
            }
            2 => {
                // alias declarations always point at a canonical value obtained earlier
                let target = match canon[c as usize] {
                    Some(t) => t,
                    None => {
                        vk::assume(false);
                        unreachable!()
                    }
                };
                vk::assume(c != n);
                let got = store.insert_alias(name(n), target);
                match st[ni] {
                    St::Canon => {
                        assert!(got == Err(InternError::AlreadyCanonical), "C12: declaring a canonical name as an alias is not rejected");
                        saw_conflict_c = true;
                    }
                    St::Alias(_) => assert!(got == Ok(()), "C12: re-declaring an alias fails"),
                    St::Unreg => {
                        assert!(got == Ok(()), "C12: alias declaration of a free name fails");
                        st[ni] = St::Alias(c);
                    }
                }
            }
            _ => {
                let got = store.resolve(name(n));
                match st[ni] {
                    St::Unreg => assert!(got.is_none(), "C12: resolve finds a name that was never registered"),
                    St::Canon => assert!(got.map(spelled) == Some(n), "C12: resolve of a canonical name is not itself"),
                    St::Alias(j) => {
                        assert!(got.map(spelled) == Some(j), "C12: an alias does not resolve to its canonical name");
                        assert!(got == canon[j as usize], "C12: alias and canonical name give different interned values (balances would split)");
                        saw_alias_resolution = true;
                    }
                }
            }
        }
        step += 1;
    }
    core::mem::forget(store);
    (saw_alias_resolution, saw_conflict_a, saw_conflict_c)
}

vk_proof_models! { unwind 6; fn c12_intern_sequence_3() {
    let o = check_sequence::<3>();
    vk_cover!(o.0, "an alias resolved to its canonical");
    vk_cover!(o.2, "canonical-as-alias conflict rejected");
} }

vk_proof_models! { unwind 6; fn c12_intern_sequence_4() {
    let o = check_sequence::<4>();
    vk_cover!(o.0, "an alias resolved to its canonical");
    vk_cover!(o.1, "alias-as-canonical conflict rejected");
    vk_cover!(o.2, "canonical-as-alias conflict rejected");
} }

#[cfg(all(test, not(kani)))]
#[test]
fn verif_replay_entry() {
    crate::vk::replay_dispatch(&[
        ("c12_intern_sequence_3", c12_intern_sequence_3 as fn()),
        ("c12_intern_sequence_4", c12_intern_sequence_4 as fn()),
    ]);
}
