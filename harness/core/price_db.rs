// Harnesses appended (as child module `verif_kani`) to core/src/report/price_db.rs.
#![allow(dead_code, unused_imports)]
use super::*;
use crate::vk;
use crate::{vk_cover, vk_proof_models};

static mut RECORDED: usize = 0;

pub(crate) fn recorded_events() -> usize {
    unsafe { RECORDED }
}

/// Kani stub for PriceRepositoryBuilder::insert_price in the check_balance harnesses: an implied
/// exchange must hand over a usable price: two different commodities, both values strictly
/// positive ("an implied exchange at a positive rate"). insert_price itself is verified to be
/// total for every event (zero sides included) by c09_insert_price.
#[cfg(kani)]
pub(crate) fn insert_price_recorder_strict<'ctx>(
    _b: &mut PriceRepositoryBuilder<'ctx>,
    _source: PriceSource,
    event: PriceEvent<'ctx>,
) where
    'ctx: 'ctx,
{
    assert!(
        !event.price_x.value.is_zero() && !event.price_y.value.is_zero(),
        "C01: implied exchange records a price with a zero side"
    );
    assert!(
        event.price_x.value.is_sign_positive() && event.price_y.value.is_sign_positive(),
        "C01: implied exchange records a negative price"
    );
    assert!(
        event.price_x.commodity != event.price_y.commodity,
        "C01: implied exchange records a price of a commodity in itself"
    );
    unsafe {
        RECORDED += 1;
    }
}

/// Kani stub cutting commodity conversion out of harnesses that request no conversion
/// (`BalanceQuery.conversion == None`): CBMC cannot resolve the niche-encoded `Option<Conversion>`
/// at symbolic-execution time and would otherwise drag the whole price search into the query.
#[cfg(kani)]
pub(crate) fn cut_convert_amount<'ctx>(
    _price_repos: &mut PriceRepository<'ctx>,
    amount: &Amount<'ctx>,
    _commodity_with: Commodity<'ctx>,
    _date: NaiveDate,
) -> Result<Amount<'ctx>, ConversionError<'ctx>> {
    kani::assume(false);
    Ok(amount.clone())
}

/// Kani stub for insert_price in whole-transaction harnesses: only counts (insert_price is total for
/// every event: c09_insert_price).
#[cfg(kani)]
pub(crate) fn insert_price_recorder_lenient<'ctx>(
    _b: &mut PriceRepositoryBuilder<'ctx>,
    _source: PriceSource,
    event: PriceEvent<'ctx>,
) where
    'ctx: 'ctx,
{
    core::mem::forget(event);
    unsafe {
        RECORDED += 1;
    }
}

use crate::report::book_keeping::verif_kani::{commodity, dec16};
use rust_decimal::Decimal as D;

fn day(off: u8) -> NaiveDate {
    NaiveDate::from_ymd_opt(2024, 3, 1 + off as u32).unwrap()
}

fn dec_small(scale: u32) -> D {
    let lo = vk::u8();
    vk::assume(lo > 0);
    D::from_parts(lo as u32, 0, 0, false, scale)
}

/// C09-H1': as-of selection. The repository state build_naive produces for one pair (prices of X in Y,
/// two dated records sorted by date, entered below the sort), queried at a symbolic day:
/// the rate used is the most recent one dated on or before the query day; none if all are later;
/// Y in Y is the identity.
vk_proof_models! { unwind 4; fn c09_asof_direct() {
    let d1 = vk::below(8);
    let d2 = vk::below(8);
    let q = vk::below(8);
    let r1 = dec_small(1);
    let r2 = dec_small(1);
    let ledger = vk::bool();
    vk::assume(d1 < d2); // same-day duplicates of one pair are not ordered by the statement
    vk::note(&|| format!("X in Y: day{} -> {}, day{} -> {}; query day{}", d1, r1, d2, r2, q));
    let (x, y) = (commodity(0), commodity(1));
    let source = if ledger { PriceSource::Ledger } else { PriceSource::PriceDB };
    let mut rates = Vec::with_capacity(2);
    rates.push((day(d1), r1));
    rates.push((day(d2), r2));
    let mut inner: HashMap<Commodity<'static>, Entry> = HashMap::new();
    inner.insert(x, Entry(source, rates));
    let mut records: HashMap<Commodity<'static>, HashMap<Commodity<'static>, Entry>> = HashMap::new();
    records.insert(y, inner);
    let repo = NaivePriceRepository { records };
    let table = repo.compute_price_table(y, day(q));
    // identity
    match table.get(&y) {
        Some(WithDistance(_, one)) => assert!(*one == D::ONE, "C09: a commodity in itself is not the identity"),
        None => {}
    }
    let got = table.get(&x).map(|w| w.1);
    let want = if d2 <= q { Some(r2) } else if d1 <= q { Some(r1) } else { None };
    match (got, want) {
        (None, None) => {}
        (Some(g), Some(w)) => assert!(g == w, "C09: conversion does not use the most recent price dated on or before the query date"),
        (Some(_), None) => panic!("C09: conversion uses a price dated after the query date"),
        (None, Some(_)) => panic!("C09: an available price dated on or before the query date is not used"),
    }
    vk_cover!(q == d2, "query on the date of the newest price");
    vk_cover!(q == d1, "query on the date of the oldest price");
    vk_cover!(q < d1, "query before every price");
    core::mem::forget(table);
    core::mem::forget(repo);
} }

#[cfg(all(test, not(kani)))]
#[test]
fn verif_replay_entry() {
    crate::vk::replay_dispatch(&[("c09_asof_direct", c09_asof_direct as fn())]);
}
