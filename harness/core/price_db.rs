// Harnesses appended (as child module `verif_kani`) to core/src/report/price_db.rs.
#![allow(dead_code, unused_imports)]
use super::*;
use crate::vk;
use crate::{vk_cover, vk_proof_models};

static mut RECORDED: usize = 0;

pub(crate) fn recorded_events() -> usize {
    unsafe { RECORDED }
}

/// Kani stub for PriceRepositoryBuilder::insert_price in the check_balance harnesses: an implied
/// exchange must hand over a usable price: two different commodities, both values strictly
/// positive ("an implied exchange at a positive rate"). insert_price itself is verified to be
/// total for every event (zero sides included) by c09_insert_price.
#[cfg(kani)]
pub(crate) fn insert_price_recorder_strict<'ctx>(
    _b: &mut PriceRepositoryBuilder<'ctx>,
    _source: PriceSource,
    event: PriceEvent<'ctx>,
) where
    'ctx: 'ctx,
{
    assert!(
        !event.price_x.value.is_zero() && !event.price_y.value.is_zero(),
        "C01: implied exchange records a price with a zero side"
    );
    assert!(
        event.price_x.value.is_sign_positive() && event.price_y.value.is_sign_positive(),
        "C01: implied exchange records a negative price"
    );
    assert!(
        event.price_x.commodity != event.price_y.commodity,
        "C01: implied exchange records a price of a commodity in itself"
    );
    unsafe {
        RECORDED += 1;
    }
}

/// Kani stub cutting commodity conversion out of harnesses that request no conversion
/// (`BalanceQuery.conversion == None`): CBMC cannot resolve the niche-encoded `Option<Conversion>`
/// at symbolic-execution time and would otherwise drag the whole price search into the query.
#[cfg(kani)]
pub(crate) fn cut_convert_amount<'ctx>(
    _price_repos: &mut PriceRepository<'ctx>,
    amount: &Amount<'ctx>,
    _commodity_with: Commodity<'ctx>,
    _date: NaiveDate,
) -> Result<Amount<'ctx>, ConversionError<'ctx>> {
    kani::assume(false);
    Ok(amount.clone())
}

/// Kani stub for insert_price in whole-transaction harnesses: only counts (insert_price is total for
/// every event: c09_insert_price).
#[cfg(kani)]
pub(crate) fn insert_price_recorder_lenient<'ctx>(
    _b: &mut PriceRepositoryBuilder<'ctx>,
    _source: PriceSource,
    event: PriceEvent<'ctx>,
) where
    'ctx: 'ctx,
{
    core::mem::forget(event);
    unsafe {
        RECORDED += 1;
    }
}

use crate::report::book_keeping::verif_kani::{commodity, dec16};
use rust_decimal::Decimal as D;

fn day(off: u8) -> NaiveDate {
    NaiveDate::from_ymd_opt(2024, 3, 1 + off as u32).unwrap()
}

fn dec_small_signed() -> D {
    let lo = vk::u8();
    let neg = vk::bool();
    vk::assume(lo < 64);
    D::from_parts(lo as u32, 0, 0, neg, 0)
}

fn dec_small(scale: u32) -> D {
    let lo = vk::u8();
    vk::assume(lo > 0);
    D::from_parts(lo as u32, 0, 0, false, scale)
}

/// C09-H1': as-of selection. The repository state build_naive produces for one pair (prices of X in Y,
/// two dated records sorted by date, entered below the sort), queried at a symbolic day:
/// the rate used is the most recent one dated on or before the query day; none if all are later;
/// Y in Y is the identity.
vk_proof_models! { unwind 4; fn c09_asof_direct() {
    let d1 = vk::below(8);
    let d2 = vk::below(8);
    let q = vk::below(8);
    let r1 = dec_small(1);
    let r2 = dec_small(1);
    let ledger = vk::bool();
    vk::assume(d1 < d2); // same-day duplicates of one pair are not ordered by the statement
    vk::note(&|| format!("X in Y: day{} -> {}, day{} -> {}; query day{}", d1, r1, d2, r2, q));
    let (x, y) = (commodity(0), commodity(1));
    let source = if ledger { PriceSource::Ledger } else { PriceSource::PriceDB };
    let mut rates = Vec::with_capacity(2);
    rates.push((day(d1), r1));
    rates.push((day(d2), r2));
    let mut inner: HashMap<Commodity<'static>, Entry> = HashMap::new();
    inner.insert(x, Entry(source, rates));
    let mut records: HashMap<Commodity<'static>, HashMap<Commodity<'static>, Entry>> = HashMap::new();
    records.insert(y, inner);
    let repo = NaivePriceRepository { records };
    let table = repo.compute_price_table(y, day(q));
    // identity
    match table.get(&y) {
        Some(WithDistance(_, one)) => assert!(*one == D::ONE, "C09: a commodity in itself is not the identity"),
        None => {}
    }
    let got = table.get(&x).map(|w| w.1);
    let want = if d2 <= q { Some(r2) } else if d1 <= q { Some(r1) } else { None };
    match (got, want) {
        (None, None) => {}
        (Some(g), Some(w)) => assert!(g == w, "C09: conversion does not use the most recent price dated on or before the query date"),
        (Some(_), None) => panic!("C09: conversion uses a price dated after the query date"),
        (None, Some(_)) => panic!("C09: an available price dated on or before the query date is not used"),
    }
    vk_cover!(q == d2, "query on the date of the newest price");
    vk_cover!(q == d1, "query on the date of the oldest price");
    vk_cover!(q < d1, "query before every price");
    core::mem::forget(table);
    core::mem::forget(repo);
} }


/// C09-H0 / C06-H4: insert_price is total for EVERY event (zero sides included: `0 X @@ 5 Y`), stores the
/// price in both directions, never a non-positive rate for positive amounts, reciprocal when exact.
vk_proof_models! { unwind 6; fn c09_insert_price() {
    let vx = dec16(0);
    let vy = dec16(0);
    let from_db = vk::bool();
    vk::assume(vx.is_sign_positive() && vy.is_sign_positive()); // book-keeping and the price DB hand over magnitudes
    vk::note(&|| format!("price event {} X = {} Y (price db: {})", vx, vy, from_db));
    let (x, y) = (commodity(0), commodity(1));
    let mut b = PriceRepositoryBuilder::default();
    let src = if from_db { PriceSource::PriceDB } else { PriceSource::Ledger };
    b.insert_price(src, PriceEvent { date: day(0), price_x: SingleAmount::from_value(vx, x), price_y: SingleAmount::from_value(vy, y) });
    let xy = b.records.get(&y).and_then(|m| m.get(&x));
    let yx = b.records.get(&x).and_then(|m| m.get(&y));
    if vx.is_zero() || vy.is_zero() {
        // nothing usable can be derived; in particular no crash
        let n = xy.map(|e| e.1.len()).unwrap_or(0) + yx.map(|e| e.1.len()).unwrap_or(0);
        assert!(n == 0, "C09: a price was recorded from a zero amount");
    } else {
        let e1 = xy.expect("price of X in Y stored");
        let e2 = yx.expect("price of Y in X stored (reciprocal direction)");
        assert!(e1.1.len() == 1 && e2.1.len() == 1, "C09: one event must store exactly one rate per direction");
        assert!(e1.0 == src && e2.0 == src, "C09: source of the stored price is not the event's source");
        let (d1, r1) = e1.1[0];
        let (d2, r2) = e2.1[0];
        assert!(d1 == day(0) && d2 == day(0), "C09: stored price carries a different date");
        assert!(!r1.is_zero() && r1.is_sign_positive() && !r2.is_zero() && r2.is_sign_positive(), "C09: non-positive rate stored");
        // exact cases of the division model: vy multiple of vx => r1 == vy / vx exactly
        let (ux, uy) = (vx.unpack().lo, vy.unpack().lo);
        if uy % ux == 0 {
            assert!(r1 == D::from_parts(uy / ux, 0, 0, false, 0), "C09: rate of X in Y is not y / x");
        }
        if ux % uy == 0 {
            assert!(r2 == D::from_parts(ux / uy, 0, 0, false, 0), "C09: reciprocal rate of Y in X is not x / y");
        }
    }
    vk_cover!(vx.is_zero() && !vy.is_zero(), "zero amount priced at a total");
    vk_cover!(!vx.is_zero() && !vy.is_zero(), "usable price");
    core::mem::forget(b);
} }

/// C09-H3: a price-database price replaces ledger-derived prices of the same pair (ledger events are
/// inserted first, the price DB afterwards, as report::process does).
vk_proof_models! { unwind 6; fn c09_source_precedence() {
    let l1 = dec_small(0);
    let l2 = dec_small(0);
    let p = dec_small(0);
    let n_ledger = vk::below(3);
    vk::note(&|| format!("{} ledger prices then one price-db price", n_ledger));
    let (x, y) = (commodity(0), commodity(1));
    let one = SingleAmount::from_value(D::ONE, x);
    let mut b = PriceRepositoryBuilder::default();
    if n_ledger >= 1 {
        b.insert_price(PriceSource::Ledger, PriceEvent { date: day(0), price_x: one, price_y: SingleAmount::from_value(l1, y) });
    }
    if n_ledger >= 2 {
        b.insert_price(PriceSource::Ledger, PriceEvent { date: day(2), price_x: one, price_y: SingleAmount::from_value(l2, y) });
    }
    b.insert_price(PriceSource::PriceDB, PriceEvent { date: day(1), price_x: one, price_y: SingleAmount::from_value(p, y) });
    let e = b.records.get(&y).and_then(|m| m.get(&x)).expect("pair stored");
    assert!(e.0 == PriceSource::PriceDB, "C09: pair not marked as price-database sourced");
    assert!(e.1.len() == 1, "C09: ledger-derived prices survive next to a price-database price for the same pair");
    assert!(e.1[0].0 == day(1) && e.1[0].1 == p, "C09: the price-database price is not what is stored");
    let r = b.records.get(&x).and_then(|m| m.get(&y)).expect("reverse pair stored");
    assert!(r.0 == PriceSource::PriceDB && r.1.len() == 1, "C09: ledger-derived prices survive in the reciprocal direction");
    vk_cover!(n_ledger == 2, "two ledger prices replaced");
    core::mem::forget(b);
} }


/// C10-H1: convert_amount converts every commodity of the amount or fails; amounts already in the target
/// are left untouched; the result is the sum of value x rate (linear). The price table for (target, date)
/// is pre-computed in the repository cache (the search that fills it is C09's subject), with symbolic
/// presence of a rate per commodity.
vk_proof_models! { unwind 6; fn c10_convert_amount() {
    let has_x = vk::bool();
    let has_y = vk::bool();
    let in_x = vk::bool();
    let in_y = vk::bool();
    let in_t = vk::bool();
    let vx = dec_small_signed();
    let vy = dec_small_signed();
    let vt = dec_small_signed();
    let rx = dec_small(0);
    let ry = dec_small(0);
    vk::note(&|| format!("amount: {}{}{} ; rates into T: X {:?} Y {:?}",
        if in_x { format!("{} X ", vx) } else { String::new() }, if in_y { format!("{} Y ", vy) } else { String::new() }, if in_t { format!("{} T", vt) } else { String::new() },
        if has_x { Some(rx) } else { None }, if has_y { Some(ry) } else { None }));
    let (x, y, t) = (commodity(0), commodity(1), commodity(2));
    let dist = Distance { num_ledger_conversions: 0, num_all_conversions: 1, staleness: TimeDelta::zero() };
    let mut table: HashMap<Commodity<'static>, WithDistance<D>> = HashMap::new();
    if has_x { table.insert(x, WithDistance(dist.clone(), rx)); }
    if has_y { table.insert(y, WithDistance(dist.clone(), ry)); }
    let mut cache = HashMap::new();
    cache.insert((t, day(3)), table);
    let mut repo = PriceRepository { inner: NaivePriceRepository { records: HashMap::new() }, cache };
    let mut amount = Amount::zero();
    if in_x { amount += SingleAmount::from_value(vx, x); }
    if in_y { amount += SingleAmount::from_value(vy, y); }
    if in_t { amount += SingleAmount::from_value(vt, t); }
    let got = convert_amount(&mut repo, &amount, t, day(3));
    let missing = (in_x && !has_x) || (in_y && !has_y);
    match &got {
        Err(ConversionError::RateNotFound(..)) => assert!(missing, "C10: conversion fails although every needed rate is available"),
        Ok(r) => {
            assert!(!missing, "C10: an amount whose rate is unavailable was dropped or left unconverted instead of failing");
            let z = D::ZERO;
            let want = (if in_x { vx * rx } else { z }) + (if in_y { vy * ry } else { z }) + (if in_t { vt } else { z });
            let (gt, _) = crate::report::eval::verif_kani::amount_verif::part(r, t);
            assert!(gt == want, "C10: converted total is not the sum of value x rate plus the untouched target amount");
            let n = crate::report::eval::verif_kani::amount_verif::n_entries(r);
            assert!(n <= 1, "C10: an unconverted commodity is left in the result");
        }
    }
    vk_cover!(got.is_ok() && in_x && in_y && in_t, "three holdings converted");
    vk_cover!(got.is_err(), "missing rate fails the conversion");
    core::mem::forget(got);
    core::mem::forget(repo);
    core::mem::forget(amount);
} }

#[cfg(all(test, not(kani)))]
#[test]
fn verif_replay_entry() {
    crate::vk::replay_dispatch(&[
        ("c09_asof_direct", c09_asof_direct as fn()),
        ("c09_insert_price", c09_insert_price as fn()),
        ("c09_source_precedence", c09_source_precedence as fn()),
        ("c10_convert_amount", c10_convert_amount as fn()),
    ]);
}
