// Harnesses appended (as child module `verif_kani`) to core/src/report/price_db.rs.
#![allow(dead_code, unused_imports)]
use super::*;
use crate::vk;
use crate::{vk_cover, vk_proof_models};

static mut RECORDED: usize = 0;

pub(crate) fn recorded_events() -> usize {
    unsafe { RECORDED }
}

/// Kani stub for PriceRepositoryBuilder::insert_price in the check_balance harnesses: an implied
/// exchange must hand over a usable price: two different commodities, both values strictly
/// positive ("an implied exchange at a positive rate"). insert_price itself is verified to be
/// total for every event (zero sides included) by c09_insert_price.
#[cfg(kani)]
pub(crate) fn insert_price_recorder_strict<'ctx>(
    _b: &mut PriceRepositoryBuilder<'ctx>,
    _source: PriceSource,
    event: PriceEvent<'ctx>,
) where
    'ctx: 'ctx,
{
    assert!(
        !event.price_x.value.is_zero() && !event.price_y.value.is_zero(),
        "C01: implied exchange records a price with a zero side"
    );
    assert!(
        event.price_x.value.is_sign_positive() && event.price_y.value.is_sign_positive(),
        "C01: implied exchange records a negative price"
    );
    assert!(
        event.price_x.commodity != event.price_y.commodity,
        "C01: implied exchange records a price of a commodity in itself"
    );
    unsafe {
        RECORDED += 1;
    }
}

/// Kani stub cutting commodity conversion out of harnesses that request no conversion
/// (`BalanceQuery.conversion == None`): CBMC cannot resolve the niche-encoded `Option<Conversion>`
/// at symbolic-execution time and would otherwise drag the whole price search into the query.
#[cfg(kani)]
pub(crate) fn cut_convert_amount<'ctx>(
    _price_repos: &mut PriceRepository<'ctx>,
    amount: &Amount<'ctx>,
    _commodity_with: Commodity<'ctx>,
    _date: NaiveDate,
) -> Result<Amount<'ctx>, ConversionError<'ctx>> {
    kani::assume(false);
    Ok(amount.clone())
}

/// Kani stub for insert_price in whole-transaction harnesses: only counts (insert_price is total for
/// every event: c09_insert_price).
#[cfg(kani)]
pub(crate) fn insert_price_recorder_lenient<'ctx>(
    _b: &mut PriceRepositoryBuilder<'ctx>,
    _source: PriceSource,
    event: PriceEvent<'ctx>,
) where
    'ctx: 'ctx,
{
    core::mem::forget(event);
    unsafe {
        RECORDED += 1;
    }
}
