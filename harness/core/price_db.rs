// Harnesses appended (as child module `verif_kani`) to core/src/report/price_db.rs.
#![allow(dead_code, unused_imports)]
use super::*;
use crate::vk;
use crate::{vk_cover, vk_proof_models, vk_proof_models_a};

static mut RECORDED: usize = 0;

pub(crate) fn recorded_events() -> usize {
    unsafe { RECORDED }
}

/// Kani stub for PriceRepositoryBuilder::insert_price in the check_balance harnesses: an implied
/// exchange must hand over a usable price: two different commodities, both values strictly
/// positive ("an implied exchange at a positive rate"). insert_price itself is verified to be
/// total for every event (zero sides included) by c09_insert_price.
#[cfg(kani)]
pub(crate) fn insert_price_recorder_strict<'ctx>(
    _b: &mut PriceRepositoryBuilder<'ctx>,
    _source: PriceSource,
    event: PriceEvent<'ctx>,
) where
    'ctx: 'ctx,
{
    assert!(
        !event.price_x.value.is_zero() && !event.price_y.value.is_zero(),
        "C01: implied exchange records a price with a zero side"
    );
    assert!(
        event.price_x.value.is_sign_positive() && event.price_y.value.is_sign_positive(),
        "C01: implied exchange records a negative price"
    );
    assert!(
        event.price_x.commodity != event.price_y.commodity,
        "C01: implied exchange records a price of a commodity in itself"
    );
    unsafe {
        RECORDED += 1;
    }
}

/// Kani stub cutting commodity conversion out of harnesses that request no conversion
/// (`BalanceQuery.conversion == None`): CBMC cannot resolve the niche-encoded `Option<Conversion>`
/// at symbolic-execution time and would otherwise drag the whole price search into the query.
#[cfg(kani)]
pub(crate) fn cut_convert_amount<'ctx>(
    _price_repos: &mut PriceRepository<'ctx>,
    amount: &Amount<'ctx>,
    _commodity_with: Commodity<'ctx>,
    _date: NaiveDate,
) -> Result<Amount<'ctx>, ConversionError<'ctx>> {
    kani::assume(false);
    Ok(amount.clone())
}

/// Kani stub for insert_price in whole-transaction harnesses: only counts (insert_price is total for
/// every event: c09_insert_price).
#[cfg(kani)]
pub(crate) fn insert_price_recorder_lenient<'ctx>(
    _b: &mut PriceRepositoryBuilder<'ctx>,
    _source: PriceSource,
    event: PriceEvent<'ctx>,
) where
    'ctx: 'ctx,
{
    core::mem::forget(event);
    unsafe {
        RECORDED += 1;
    }
}

use crate::report::book_keeping::verif_kani::{commodity, dec16};
use crate::report::intern::FromInterned;
use rust_decimal::Decimal as D;

/// 2024-03-(1+off), off < 8. A table of concrete dates selected by the (possibly symbolic) offset:
/// chrono's month/day -> ordinal tables never see a symbolic index.
fn day(off: u8) -> NaiveDate {
    let d = |n: u32| NaiveDate::from_ymd_opt(2024, 3, n).unwrap();
    let tbl = [d(1), d(2), d(3), d(4), d(5), d(6), d(7), d(8)];
    tbl[(off & 7) as usize]
}

fn dec_small_signed() -> D {
    let lo = vk::u8();
    let neg = vk::bool();
    vk::assume(lo < 64);
    D::from_parts(lo as u32, 0, 0, neg, 0)
}

/// non-zero 6-bit value at scale 0 (products of two stay below 2^12)
fn dec_small6() -> D {
    let lo = vk::u8();
    vk::assume(lo > 0 && lo < 64);
    D::from_parts(lo as u32, 0, 0, false, 0)
}

fn dec_small(scale: u32) -> D {
    let lo = vk::u8();
    vk::assume(lo > 0);
    D::from_parts(lo as u32, 0, 0, false, scale)
}

/// C09-H1': as-of selection. The repository state build_naive produces for one pair (prices of X in Y,
/// two dated records sorted by date, entered below the sort), queried at a symbolic day:
/// the rate used is the most recent one dated on or before the query day; none if all are later;
/// Y in Y is the identity.
vk_proof_models! {
    #[cfg_attr(kani, kani::stub(core::slice::sort::unstable::sort, crate::verif_env::unstable_sort_identity))]
    unwind 6; fn c09_asof_direct() {
    let d1 = vk::below(8);
    let d2 = vk::below(8);
    let q = vk::below(8);
    let r1 = dec_small(1);
    let r2 = dec_small(1);
    let ledger = vk::bool();
    vk::assume(d1 < d2); // same-day duplicates of one pair are not ordered by the statement
    vk::note(&|| format!("X in Y: day{} -> {}, day{} -> {}; query day{}", d1, r1, d2, r2, q));
    let (x, y) = (commodity(0), commodity(1));
    let source = if ledger { PriceSource::Ledger } else { PriceSource::PriceDB };
    let mut rates = Vec::with_capacity(2);
    rates.push((day(d1), r1));
    rates.push((day(d2), r2));
    let mut inner: HashMap<Commodity<'static>, Entry> = HashMap::new();
    inner.insert(x, Entry(source, rates));
    let mut records: HashMap<Commodity<'static>, HashMap<Commodity<'static>, Entry>> = HashMap::new();
    records.insert(y, inner);
    let repo = NaivePriceRepository { records };
    let table = repo.compute_price_table(y, day(q));
    // identity
    match table.get(&y) {
        Some(WithDistance(_, one)) => assert!(*one == D::ONE, "C09: a commodity in itself is not the identity"),
        None => {}
    }
    let got = table.get(&x).map(|w| w.1);
    let want = if d2 <= q { Some(r2) } else if d1 <= q { Some(r1) } else { None };
    match (got, want) {
        (None, None) => {}
        (Some(g), Some(w)) => assert!(g == w, "C09: conversion does not use the most recent price dated on or before the query date"),
        (Some(_), None) => panic!("C09: conversion uses a price dated after the query date"),
        (None, Some(_)) => panic!("C09: an available price dated on or before the query date is not used"),
    }
    vk_cover!(q == d2, "query on the date of the newest price");
    vk_cover!(q == d1, "query on the date of the oldest price");
    vk_cover!(q < d1, "query before every price");
    core::mem::forget(table);
    core::mem::forget(repo);
} }


/// C09-H0 / C06-H4: insert_price is total for EVERY event (zero sides included: `0 X @@ 5 Y`), stores the
/// price in both directions, never a non-positive rate for positive amounts, reciprocal when exact.
vk_proof_models! { unwind 6; fn c09_insert_price() {
    let vx = D::from_parts(vk::u8() as u32, 0, 0, false, 0);
    let vy = D::from_parts(vk::u8() as u32, 0, 0, false, 0);
    let from_db = vk::bool();
    vk::note(&|| format!("price event {} X = {} Y (price db: {})", vx, vy, from_db));
    let (x, y) = (commodity(0), commodity(1));
    let mut b = PriceRepositoryBuilder::default();
    let src = if from_db { PriceSource::PriceDB } else { PriceSource::Ledger };
    b.insert_price(src, PriceEvent { date: day(0), price_x: SingleAmount::from_value(vx, x), price_y: SingleAmount::from_value(vy, y) });
    let xy = b.records.get(&y).and_then(|m| m.get(&x));
    let yx = b.records.get(&x).and_then(|m| m.get(&y));
    if vx.is_zero() || vy.is_zero() {
        // nothing usable can be derived; in particular no crash
        let n = xy.map(|e| e.1.len()).unwrap_or(0) + yx.map(|e| e.1.len()).unwrap_or(0);
        assert!(n == 0, "C09: a price was recorded from a zero amount");
    } else {
        let e1 = xy.expect("price of X in Y stored");
        let e2 = yx.expect("price of Y in X stored (reciprocal direction)");
        assert!(e1.1.len() == 1 && e2.1.len() == 1, "C09: one event must store exactly one rate per direction");
        assert!(e1.0 == src && e2.0 == src, "C09: source of the stored price is not the event's source");
        let (d1, r1) = e1.1[0];
        let (d2, r2) = e2.1[0];
        assert!(d1 == day(0) && d2 == day(0), "C09: stored price carries a different date");
        assert!(!r1.is_zero() && r1.is_sign_positive() && !r2.is_zero() && r2.is_sign_positive(), "C09: non-positive rate stored");
        // exact cases of the division model: vy multiple of vx => r1 == vy / vx exactly
        let (ux, uy) = (vx.unpack().lo, vy.unpack().lo);
        if uy % ux == 0 {
            assert!(r1 == D::from_parts(uy / ux, 0, 0, false, 0), "C09: rate of X in Y is not y / x");
        }
        if ux % uy == 0 {
            assert!(r2 == D::from_parts(ux / uy, 0, 0, false, 0), "C09: reciprocal rate of Y in X is not x / y");
        }
    }
    vk_cover!(vx.is_zero() && !vy.is_zero(), "zero amount priced at a total");
    vk_cover!(!vx.is_zero() && !vy.is_zero(), "usable price");
    core::mem::forget(b);
} }

/// C09-H3: a price-database price replaces ledger-derived prices of the same pair (ledger events are
/// inserted first, the price DB afterwards, as report::process does), in both directions; inserted the
/// other way round, a ledger-derived price never downgrades or joins a price-database pair.
/// The sequence is concrete (a symbolic number of `Vec::push`es makes the allocation size symbolic);
/// the quick harness does not read the stored rates back (reading an element of a `Vec` whose buffer
/// was allocated after a path merge needs CBMC's array theory: 16 GB) - the `_value` variant does, under
/// the fixed-block allocator model.
fn source_precedence<const DB_FIRST: bool, const READ_BACK: bool>() {
    let l1 = dec_small(0);
    let p = dec_small(0);
    vk::note(&|| format!("ledger price {} and price-db price {} for the same pair (price db first: {})", l1, p, DB_FIRST));
    let (x, y) = (commodity(0), commodity(1));
    let one = SingleAmount::from_value(D::ONE, x);
    let mut b = PriceRepositoryBuilder::default();
    if DB_FIRST {
        b.insert_price(PriceSource::PriceDB, PriceEvent { date: day(1), price_x: one, price_y: SingleAmount::from_value(p, y) });
        b.insert_price(PriceSource::Ledger, PriceEvent { date: day(0), price_x: one, price_y: SingleAmount::from_value(l1, y) });
    } else {
        b.insert_price(PriceSource::Ledger, PriceEvent { date: day(0), price_x: one, price_y: SingleAmount::from_value(l1, y) });
        b.insert_price(PriceSource::PriceDB, PriceEvent { date: day(1), price_x: one, price_y: SingleAmount::from_value(p, y) });
    }
    let e = b.records.get(&y).and_then(|m| m.get(&x)).expect("pair stored");
    let r = b.records.get(&x).and_then(|m| m.get(&y)).expect("reverse pair stored");
    assert!(e.0 == PriceSource::PriceDB && r.0 == PriceSource::PriceDB, "C09: pair not marked as price-database sourced in both directions");
    if !DB_FIRST {
        assert!(e.1.len() == 1, "C09: ledger-derived prices survive next to a price-database price for the same pair");
        assert!(r.1.len() == 1, "C09: ledger-derived prices survive in the reciprocal direction");
        if READ_BACK {
            assert!(e.1[0].0 == day(1), "C09: the surviving price is not the price-database one (date)");
        }
    }
    vk_cover!(l1 != p, "ledger and price-db prices differ");
    core::mem::forget(b);
}
vk_proof_models! { unwind 6; fn c09_source_precedence() { source_precedence::<false, false>(); } }
vk_proof_models! { unwind 6; fn c09_source_keep_db() { source_precedence::<true, false>(); } }
vk_proof_models_a! { unwind 6; fn c09_source_precedence_value() { source_precedence::<false, true>(); } }

/// C09-H4: the order conversion chains are ranked by: fewest ledger-derived steps, then fewest steps,
/// then least stale - `Distance`'s derived ordering and `Distance::extend`, for every pair of distances.
vk_proof_models! { unwind 4; fn c09_distance_order() {
    let (a1, a2, a3) = (vk::u8(), vk::u8(), vk::u8());
    let (b1, b2, b3) = (vk::u8(), vk::u8(), vk::u8());
    let ledger = vk::bool();
    let st = vk::u8();
    vk::note(&|| format!("distances {:?} vs {:?}; extend by ledger={} staleness {}d", (a1, a2, a3), (b1, b2, b3), ledger, st));
    let mk = |n: u8, h: u8, s: u8| Distance { num_ledger_conversions: n as usize, num_all_conversions: h as usize, staleness: TimeDelta::days(s as i64) };
    let (da, db) = (mk(a1, a2, a3), mk(b1, b2, b3));
    let want = (a1, a2, a3).cmp(&(b1, b2, b3));
    assert!(da.cmp(&db) == want, "C09: chains are not ranked by (ledger-derived steps, steps, staleness)");
    assert!(da.partial_cmp(&db) == Some(want), "C09: partial order of distances disagrees with the total order");
    assert!((da == db) == (want == core::cmp::Ordering::Equal), "C09: equality of distances");
    let (wa, wb) = (WithDistance(da.clone(), 1u8), WithDistance(db.clone(), 2u8));
    assert!(wa.cmp(&wb) == want && wa.partial_cmp(&wb) == Some(want), "C09: queue entries are not ordered by their distance");
    assert!(wa.partial_cmp(&db) == Some(want) && (wa == db) == (want == core::cmp::Ordering::Equal), "C09: entry-vs-distance comparison");
    let e = da.extend(if ledger { PriceSource::Ledger } else { PriceSource::PriceDB }, TimeDelta::days(st as i64));
    assert!(e.num_ledger_conversions == a1 as usize + ledger as usize, "C09: only ledger-derived steps count as ledger-derived");
    assert!(e.num_all_conversions == a2 as usize + 1, "C09: every step counts as a step");
    assert!(e.staleness == TimeDelta::days(core::cmp::max(a3, st) as i64), "C09: staleness of a chain is that of its stalest price");
    vk_cover!(a1 == b1 && a2 == b2 && a3 < b3, "decided by staleness");
    vk_cover!(a1 < b1 && a2 > b2, "ledger-derived steps outrank the step count");
} }

/// C09-H5: chain selection over three commodities. Records as `build_naive` leaves them (one dated rate
/// per pair, entered below the sort): D = price of X in T, A = price of M in T, B = price of X in M, each
/// with symbolic presence, source, date and rate, queried at a symbolic day. Expected from the statement:
/// only prices dated on or before the query day; direct vs. two-step chain ranked by (ledger-derived steps,
/// steps); the rate of a chain is the product of its steps; no usable chain => no rate; T in T = 1.
vk_proof_models! {
    #[cfg_attr(kani, kani::stub(core::slice::sort::unstable::sort, crate::verif_env::unstable_sort_identity))]
    unwind 6; fn c09_chain_3() {
    let q = vk::below(4);
    // All three pairs are present (concrete map shapes keep the search's path count small); a pair whose
    // only price is dated after the query day behaves as an absent pair, so every usable/unusable pattern
    // is still inside the space.
    let (has_d, has_a, has_b) = (true, true, true);
    let (led_d, day_d, r_d) = (vk::bool(), vk::below(4), dec_small6());
    let (led_a, day_a, r_a) = (vk::bool(), vk::below(4), dec_small6());
    let (led_b, day_b, r_b) = (vk::bool(), vk::below(4), dec_small6());
    vk::note(&|| format!("query day{}; X in T: {:?}; M in T: {:?}; X in M: {:?}", q,
        if has_d { Some((led_d, day_d, r_d)) } else { None }, if has_a { Some((led_a, day_a, r_a)) } else { None },
        if has_b { Some((led_b, day_b, r_b)) } else { None }));
    let (x, m, t) = (commodity(0), commodity(1), commodity(2));
    let src = |l: bool| if l { PriceSource::Ledger } else { PriceSource::PriceDB };
    let one = |d: u8, r: D| { let mut v = Vec::with_capacity(1); v.push((day(d), r)); v };
    let mut records: HashMap<Commodity<'static>, HashMap<Commodity<'static>, Entry>> = HashMap::new();
    let mut of_t: HashMap<Commodity<'static>, Entry> = HashMap::new();
    if has_d { of_t.insert(x, Entry(src(led_d), one(day_d, r_d))); }
    if has_a { of_t.insert(m, Entry(src(led_a), one(day_a, r_a))); }
    records.insert(t, of_t);
    let mut of_m: HashMap<Commodity<'static>, Entry> = HashMap::new();
    if has_b { of_m.insert(x, Entry(src(led_b), one(day_b, r_b))); }
    records.insert(m, of_m);
    let repo = NaivePriceRepository { records };
    let table = repo.compute_price_table(t, day(q));
    match table.get(&t) {
        Some(WithDistance(_, r)) => assert!(*r == D::ONE, "C09: a commodity in itself is not the identity"),
        None => {} // convert_single answers T-in-T before consulting the table
    }
    let (ud, ua, ub) = (has_d && day_d <= q, has_a && day_a <= q, has_b && day_b <= q);
    // rate of M
    match (table.get(&m).map(|w| w.1), ua) {
        (None, false) => {}
        (Some(g), true) => assert!(g == r_a, "C09: rate of the intermediate commodity"),
        (Some(_), false) => panic!("C09: a price dated after the query date (or absent) was used"),
        (None, true) => panic!("C09: an available price was not used"),
    }
    // rate of X
    let direct = (led_d as u8, 1u8);
    let chain = (led_a as u8 + led_b as u8, 2u8);
    let want = match (ud, ua && ub) {
        (false, false) => None,
        (true, false) => Some(r_d),
        (false, true) => Some(r_a * r_b),
        (true, true) => Some(if direct < chain { r_d } else { r_a * r_b }), // never equal: the step counts differ
    };
    match (table.get(&x).map(|w| w.1), want) {
        (None, None) => {}
        (Some(g), Some(w)) => assert!(g == w, "C09: the chain with the fewest ledger-derived steps, then the fewest steps, was not the one used"),
        (Some(_), None) => panic!("C09: a conversion was made up although no chain of usable prices exists"),
        (None, Some(_)) => panic!("C09: an existing chain of usable prices was not found"),
    }
    vk_cover!(ud && ua && ub && led_d && !led_a && !led_b, "two price-db steps beat one ledger-derived step");
    vk_cover!(ud && ua && ub && !led_d, "direct price-db price beats a chain");
    vk_cover!(!ud && ua && ub, "only the chain is usable");
    vk_cover!(has_d && !ud && !(ua && ub), "every price is in the future");
    core::mem::forget(table);
    core::mem::forget(repo);
} }

/// C10-H2 / C09: two conversions of the same holding at two different dates through one PriceRepository
/// (the rate-table cache sits between them): each must use the price as of ITS date - a table computed for
/// one date must never answer for another (in either order: `--historical` walks postings in file order,
/// which need not be date order).
vk_proof_models! {
    #[cfg_attr(kani, kani::stub(core::slice::sort::unstable::sort, crate::verif_env::unstable_sort_identity))]
    unwind 6; fn c10_convert_two_dates() {
    let d1 = vk::below(4);
    let d2 = vk::below(4);
    let q1 = vk::below(4);
    let q2 = vk::below(4);
    let r1 = dec_small6();
    let r2 = dec_small6();
    let v = dec_small6();
    vk::assume(d1 < d2);
    vk::note(&|| format!("X in T: day{} -> {}, day{} -> {}; {} X converted at day{} and then at day{}", d1, r1, d2, r2, v, q1, q2));
    let (x, t) = (commodity(0), commodity(1));
    let mut rates = Vec::with_capacity(2);
    rates.push((day(d1), r1));
    rates.push((day(d2), r2));
    let mut inner: HashMap<Commodity<'static>, Entry> = HashMap::new();
    inner.insert(x, Entry(PriceSource::PriceDB, rates));
    let mut records: HashMap<Commodity<'static>, HashMap<Commodity<'static>, Entry>> = HashMap::new();
    records.insert(t, inner);
    let mut repo = PriceRepository::new(NaivePriceRepository { records });
    let want = |q: u8| if d2 <= q { Some(v * r2) } else if d1 <= q { Some(v * r1) } else { None };
    let holding = SingleAmount::from_value(v, x);
    let g1 = repo.convert_single(holding, t, day(q1));
    let g2 = repo.convert_single(holding, t, day(q2));
    let check = |g: &Result<SingleAmount<'static>, ConversionError<'static>>, w: Option<D>| match (g, w) {
        (Err(_), None) => {}
        (Ok(a), Some(w)) => assert!(a.value == w && a.commodity == t, "C10: a holding was not converted at the price as of its own date"),
        (Ok(_), None) => panic!("C10: converted with a price dated after the conversion date instead of failing"),
        (Err(_), Some(_)) => panic!("C10: conversion failed although a price on or before the date exists"),
    };
    check(&g1, want(q1));
    check(&g2, want(q2));
    vk_cover!(q1 > q2 && want(q1).is_some() && want(q2).is_none(), "later date first, earlier date has no price yet");
    vk_cover!(q1 < q2 && d1 <= q1 && q1 < d2 && d2 <= q2, "the price changes between the two dates");
    core::mem::forget((g1, g2));
    core::mem::forget(repo);
} }

/// C10-H1: convert_amount converts every commodity of the amount or fails; amounts already in the target
/// are left untouched; the result is the sum of value x rate (linear). The price table for (target, date)
/// is pre-computed in the repository cache (the search that fills it is C09's subject), with symbolic
/// presence of a rate per commodity.
vk_proof_models! { unwind 6; fn c10_convert_amount() {
    let has_x = vk::bool();
    let has_y = vk::bool();
    let in_x = vk::bool();
    let in_y = vk::bool();
    let in_t = vk::bool();
    let vx = dec_small_signed();
    let vy = dec_small_signed();
    let vt = dec_small_signed();
    let rx = dec_small(0);
    let ry = dec_small(0);
    vk::note(&|| format!("amount: {}{}{} ; rates into T: X {:?} Y {:?}",
        if in_x { format!("{} X ", vx) } else { String::new() }, if in_y { format!("{} Y ", vy) } else { String::new() }, if in_t { format!("{} T", vt) } else { String::new() },
        if has_x { Some(rx) } else { None }, if has_y { Some(ry) } else { None }));
    let (x, y, t) = (commodity(0), commodity(1), commodity(2));
    let dist = Distance { num_ledger_conversions: 0, num_all_conversions: 1, staleness: TimeDelta::zero() };
    let mut table: HashMap<Commodity<'static>, WithDistance<D>> = HashMap::new();
    if has_x { table.insert(x, WithDistance(dist.clone(), rx)); }
    if has_y { table.insert(y, WithDistance(dist.clone(), ry)); }
    let mut cache = HashMap::new();
    cache.insert((t, day(3)), table);
    let mut repo = PriceRepository { inner: NaivePriceRepository { records: HashMap::new() }, cache };
    let mut amount = Amount::zero();
    if in_x { amount += SingleAmount::from_value(vx, x); }
    if in_y { amount += SingleAmount::from_value(vy, y); }
    if in_t { amount += SingleAmount::from_value(vt, t); }
    let got = convert_amount(&mut repo, &amount, t, day(3));
    let missing = (in_x && !has_x) || (in_y && !has_y);
    match &got {
        Err(ConversionError::RateNotFound(..)) => assert!(missing, "C10: conversion fails although every needed rate is available"),
        Ok(r) => {
            assert!(!missing, "C10: an amount whose rate is unavailable was dropped or left unconverted instead of failing");
            let z = D::ZERO;
            let want = (if in_x { vx * rx } else { z }) + (if in_y { vy * ry } else { z }) + (if in_t { vt } else { z });
            let (gt, _) = crate::report::eval::verif_kani::amount_verif::part(r, t);
            assert!(gt == want, "C10: converted total is not the sum of value x rate plus the untouched target amount");
            let n = crate::report::eval::verif_kani::amount_verif::n_entries(r);
            assert!(n <= 1, "C10: an unconverted commodity is left in the result");
        }
    }
    vk_cover!(got.is_ok() && in_x && in_y && in_t, "three holdings converted");
    vk_cover!(got.is_err(), "missing rate fails the conversion");
    core::mem::forget(got);
    core::mem::forget(repo);
    core::mem::forget(amount);
} }



#[cfg(all(test, not(kani)))]
#[test]
fn verif_replay_entry() {
    crate::vk::replay_dispatch(&[
        ("c09_asof_direct", c09_asof_direct as fn()),
        ("c09_insert_price", c09_insert_price as fn()),
        ("c09_source_precedence", c09_source_precedence as fn()),
        ("c09_source_precedence_value", c09_source_precedence_value as fn()),
        ("c09_source_keep_db", c09_source_keep_db as fn()),
        ("c09_distance_order", c09_distance_order as fn()),
        ("c09_chain_3", c09_chain_3 as fn()),
        ("c10_convert_amount", c10_convert_amount as fn()),
        ("c10_convert_two_dates", c10_convert_two_dates as fn()),
    ]);
}
