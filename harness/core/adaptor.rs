// Harnesses appended (as child module `verif_kani`) to core/src/parse/adaptor.rs.
// C14: the location data of a parsed entry refers to the original file.
#![allow(dead_code, unused_imports)]
use super::*;
use crate::vk;
use crate::{vk_cover, vk_proof};

fn count_nl(b: &[u8], upto: usize) -> usize {
    let mut n = 0;
    let mut i = 0;
    while i < upto {
        if b[i] == b'\n' {
            n += 1;
        }
        i += 1;
    }
    n
}

/// ParsedContext for an entry spanning [s, e) of an arbitrary text (any bytes: CR, LF, high bytes):
/// compute_line_start is the line of the entry's first byte in the original file, as_str is exactly the
/// entry's bytes, span() resolves a tracked sub-span to offsets relative to the entry.
fn check_parsed_context<const N: usize>() {
    let len = vk::u8() as usize;
    let s = vk::u8() as usize;
    let e = vk::u8() as usize;
    let cs = vk::u8() as usize;
    let ce = vk::u8() as usize;
    let raw: [u8; N] = vk::bytes::<N>();
    vk::assume(len <= N && s <= e && e <= len);
    vk::assume(s <= cs && cs <= ce && ce <= e); // a tracked item lies inside its entry
    let mut i = 0;
    while i < N {
        vk::assume(raw[i] < 128); // as_str() slices at s and e; ASCII keeps every index a boundary
        i += 1;
    }
    let initial: &str = unsafe { std::str::from_utf8_unchecked(&raw[..len]) };
    vk::note(&|| format!("text={:?} entry={}..{} item={}..{}", initial, s, e, cs, ce));
    let pc = ParsedContext { initial, span: s..e };
    assert!(pc.compute_line_start() == 1 + count_nl(&raw, s), "C14: line of an entry is not counted in the original file (1 + newlines before its first byte)");
    let t = pc.as_str();
    assert!(t.len() == e - s && t.as_ptr() == unsafe { initial.as_ptr().add(s) }, "C14: entry text is not the entry's slice of the file");
    let r = pc.span().resolve(&crate::syntax::tracked::verif_kani::span(cs, ce));
    assert!(r.start == cs - s && r.end == ce - s, "C14: a tracked item does not resolve to its offset inside the entry");
    assert!(r.end <= t.len(), "C14: resolved span leaves the entry text");
    vk_cover!(s > 0 && raw[s - 1] == b'\r', "entry preceded by a carriage return");
    vk_cover!(count_nl(&raw, s) == 2, "entry on the third line");
}

vk_proof! { unwind 10; fn c14_parsed_context_8() { check_parsed_context::<8>(); } }

/// The same on texts of at most 4 bytes ("a\r\nb" is inside): a second, much smaller query, so that a change
/// which makes the line computation expensive for the solver (e.g. `str::lines()`) is still decided.
vk_proof! { unwind 6; fn c14_parsed_context_4() { check_parsed_context::<4>(); } }

#[cfg(all(test, not(kani)))]
#[test]
fn verif_replay_entry() {
    crate::vk::replay_dispatch(&[("c14_parsed_context_8", c14_parsed_context_8 as fn()), ("c14_parsed_context_4", c14_parsed_context_4 as fn())]);
}

/// Lets harnesses of other modules build a ParsedContext (fields are pub(super)).
pub(crate) fn mk_ctx(initial: &str, s: usize, e: usize) -> ParsedContext<'_> {
    ParsedContext { initial, span: s..e }
}
