// Harnesses appended (as child module `verif_kani`) to core/src/report/balance.rs.
// C13: report order does not depend on map iteration order.
#![allow(dead_code, unused_imports)]
use super::*;
use crate::report::book_keeping::verif_kani::{account, commodity, dec16};
use crate::vk;
use crate::{vk_cover, vk_proof_models};

/// Balance::into_vec (what `okane balance` prints) is sorted by account name whatever the iteration
/// order of the underlying map and whatever the insertion order.
vk_proof_models! {
    #[cfg_attr(kani, kani::stub(core::slice::sort::unstable::sort, crate::verif_env::unstable_sort_model))]
    unwind 8; fn c13_into_vec_sorted() {
    let first = vk::below(3);
    let v = dec16(0);
    vk::order_nondet(true);
    let x = commodity(0);
    vk::note(&|| format!("accounts inserted starting with #{} (of A, B, C), value {}", first, v));
    let mut bal = Balance::default();
    let mut k = 0u8;
    while k < 3 {
        let i = ((first + k) % 3) as usize;
        bal.add_amount(account(i), Amount::from_value(v, x));
        k += 1;
    }
    let got = bal.into_vec();
    assert!(got.len() == 3, "C13: accounts lost or duplicated in the balance listing");
    assert!(
        got[0].0.as_str() == "A" && got[1].0.as_str() == "B" && got[2].0.as_str() == "C",
        "C13: balance listing is not sorted by account name (depends on map iteration order)"
    );
    vk_cover!(first == 2, "C inserted first");
    core::mem::forget(got);
} }

#[cfg(all(test, not(kani)))]
#[test]
fn verif_replay_entry() {
    crate::vk::replay_dispatch(&[("c13_into_vec_sorted", c13_into_vec_sorted as fn())]);
}
