// Child of core/src/syntax/tracked.rs: lets harnesses build spans (TrackedSpan's field is private
// and its constructor is cfg(test) only).
#![allow(dead_code)]
use super::*;

pub(crate) fn span(start: usize, end: usize) -> TrackedSpan {
    TrackedSpan(start..end)
}
