// Harnesses appended (as child module `verif_kani`) to core/src/syntax/display.rs.
// C19: aligned columns.
#![allow(dead_code, unused_imports)]
use super::*;
use crate::vk;
use crate::{vk_cover, vk_proof};

/// C19-H1: the column arithmetic behind every posting line, for all widths up to 2^20.
/// A posting line is "    " + account (display width aw) + pad + number (alignment offset al) ...
/// with pad = get_column(48, aw + al, 2); an assertion-only posting pads " =" to
/// get_column(50 + trailing, aw, 2).
#[cfg_attr(kani, kani::proof)]
pub fn c19_column_arithmetic() {
    let aw = vk::u32() as usize;
    let al = vk::u32() as usize;
    let trailing = vk::u32() as usize;
    vk::assume(aw < (1 << 20) && al < (1 << 20) && trailing < (1 << 20));
    vk::note(&|| format!("account width {} alignment {} trailing {}", aw, al, trailing));
    // amount present
    let pad = get_column(48, aw + al, 2);
    assert!(pad >= 2, "C19: fewer than two spaces between account and amount");
    let fits = aw + al + 2 < 48;
    if fits {
        assert!(4 + aw + pad + al == 52, "C19: numeric part does not end at column 52 although the account is short enough");
    } else {
        assert!(pad == 2, "C19: long account not separated by exactly the minimal two spaces");
    }
    // assertion only: " =" right-aligned in bpad columns, so '=' sits at 4 + aw + bpad
    let bpad = get_column(50 + trailing, aw, 2);
    assert!(bpad >= 2, "C19: fewer than two columns for ` =` after the account");
    if aw + 2 < 50 + trailing {
        // after an amount in that commodity: number ends at 52, then `trailing` columns of commodity, then " ="
        assert!(4 + aw + bpad == 52 + trailing + 2, "C19: `=` of an assertion-only posting is not where it falls after an amount");
    }
    // Alignment bookkeeping used to find `al`
    let x = vk::u32() as usize;
    let p = vk::u8() as usize;
    let s = vk::u8() as usize;
    vk::assume(x < (1 << 20));
    assert!(Alignment::Partial(x).plus(p, s) == Alignment::Partial(p + x + s), "C19: partial alignment does not include prefix and suffix");
    assert!(Alignment::Complete(x).plus(p, s) == Alignment::Complete(p + x), "C19: complete alignment shifted by a suffix");
    assert!(Alignment::Complete(x).absolute() == x && Alignment::Partial(x).absolute() == x, "C19: absolute alignment");
    vk_cover!(fits, "short account");
    vk_cover!(!fits, "long account");
}

#[cfg(all(test, not(kani)))]
#[test]
fn verif_replay_entry() {
    crate::vk::replay_dispatch(&[("c19_column_arithmetic", c19_column_arithmetic as fn())]);
}
