// Harnesses appended (as child module `verif_kani`) to core/src/syntax/pretty_decimal.rs.
// C07: numeric literals mean exactly what is written. C06-H3: the literal scanner is total.
#![allow(dead_code, unused_imports)]
use super::*;
use crate::vk;
use crate::vk_cover;
use std::str::FromStr;

/// What the statement of C07 says about a byte string.
#[derive(PartialEq, Eq, Clone, Copy)]
enum Class {
    /// optional minus, >= 1 digit before an optional fraction of >= 1 digit;
    /// integer digits ungrouped or d{1,3}(,ddd)+ : must be accepted with exactly this value
    WellFormed,
    /// a lone trailing / leading decimal point around otherwise well formed digits
    /// (`1.` `.5` `1,234.`): the statement does not decide; if accepted the value must be exact
    Free,
    /// everything else: must be rejected
    Malformed,
}

struct Ref {
    /// why it is malformed: 1 foreign character / misplaced minus, 2 comma grouping, 3 after the point, 4 no digit
    why: u8,
    class: Class,
    neg: bool,
    mant: u64,
    scale: u32,
    has_comma: bool,
}

/// Reference recogniser + value, written from the statement (not from the code).
fn reference(b: &[u8]) -> Ref {
    let mut bad = Ref { why: 0, class: Class::Malformed, neg: false, mant: 0, scale: 0, has_comma: false };
    let n = b.len();
    let mut i = 0;
    let mut neg = false;
    if i < n && b[i] == b'-' {
        neg = true;
        i += 1;
    }
    // integer part: digits and commas up to '.' or end
    let int_start = i;
    let mut mant: u64 = 0;
    let mut int_digits = 0usize;
    let mut has_comma = false;
    let mut group_len = 0usize; // digits since last comma (or since start)
    let mut first_group_len = 0usize;
    let mut groups_ok = true;
    while i < n && b[i] != b'.' {
        let c = b[i];
        if c.is_ascii_digit() {
            mant = mant * 10 + (c - b'0') as u64;
            int_digits += 1;
            group_len += 1;
        } else if c == b',' {
            if !has_comma {
                first_group_len = group_len;
                if group_len < 1 || group_len > 3 {
                    groups_ok = false;
                }
            } else if group_len != 3 {
                groups_ok = false;
            }
            has_comma = true;
            group_len = 0;
        } else {
            bad.why = 1;
            return bad;
        }
        i += 1;
    }
    let _ = (int_start, first_group_len);
    if has_comma && group_len != 3 {
        groups_ok = false;
    }
    if !groups_ok {
        bad.why = 2;
        return bad;
    }
    let mut scale = 0u32;
    let mut has_point = false;
    if i < n {
        // b[i] == '.'
        has_point = true;
        i += 1;
        while i < n {
            let c = b[i];
            if c.is_ascii_digit() {
                mant = mant * 10 + (c - b'0') as u64;
                scale += 1;
            } else {
                bad.why = 3;
                return bad; // second '.', ',', '-' or anything else after the point
            }
            i += 1;
        }
    }
    if int_digits + scale as usize == 0 {
        bad.why = 4;
        return bad; // no digit at all: "", "-", ".", "-."
    }
    let class = if int_digits == 0 || (has_point && scale == 0) { Class::Free } else { Class::WellFormed };
    bad.class = class;
    bad.neg = neg;
    bad.mant = mant;
    bad.scale = scale;
    bad.has_comma = has_comma;
    bad
}

fn check_literal<const N: usize>() {
    let len = vk::u8() as usize;
    let raw: [u8; N] = vk::bytes::<N>();
    vk::assume(len <= N);
    let mut i = 0;
    while i < N {
        // ASCII only: `&str` validity is not the subject (see DESIGN C07)
        vk::assume(raw[i] < 128);
        i += 1;
    }
    let s: &str = unsafe { std::str::from_utf8_unchecked(&raw[..len]) };
    vk::note(&|| format!("literal={:?}", s));
    let r = reference(&raw[..len]);
    let got = PrettyDecimal::from_str(s);
    match (&got, r.class) {
        (Ok(_), Class::Malformed) => match r.why {
            1 => panic!("C07: literal with a foreign character or misplaced minus accepted"),
            2 => panic!("C07: literal with incomplete or misplaced comma groups accepted"),
            3 => panic!("C07: literal with a second point or a comma after the point accepted"),
            _ => panic!("C07: literal without any digit accepted"),
        },
        (Err(_), Class::WellFormed) => {
            panic!("C07: well-formed literal rejected");
        }
        _ => {}
    }
    if let Ok(v) = &got {
        let m = v.value.mantissa();
        let want = if r.neg { -(r.mant as i128) } else { r.mant as i128 };
        assert!(m == want, "C07: accepted literal has a different mantissa than written");
        assert!(v.value.scale() == r.scale, "C07: accepted literal has a different number of decimal places");
        if r.has_comma {
            assert!(v.format == Some(Format::Comma3Dot), "C07: grouping style of a grouped literal lost");
        } else {
            assert!(v.format != Some(Format::Comma3Dot), "C07: ungrouped literal gained grouping");
        }
    }
    vk_cover!(got.is_ok() && r.class == Class::WellFormed && r.has_comma, "accepted grouped");
    vk_cover!(got.is_ok() && r.class == Class::WellFormed && r.scale > 0 && r.neg, "accepted negative fraction");
    vk_cover!(got.is_err() && r.class == Class::Malformed, "rejected malformed");
    std::mem::forget(got);
}

#[cfg_attr(kani, kani::proof)]
#[cfg_attr(kani, kani::unwind(8))]
#[cfg_attr(kani, kani::stub(alloc::fmt::format, crate::verif_env::fmt_format_stub))]
pub fn c07_literal_6() {
    check_literal::<6>();
}

#[cfg_attr(kani, kani::proof)]
#[cfg_attr(kani, kani::unwind(12))]
#[cfg_attr(kani, kani::stub(alloc::fmt::format, crate::verif_env::fmt_format_stub))]
pub fn c07_literal_10() {
    check_literal::<10>();
}

/// C06-H3b / C07-H4: literals too large to represent are rejected, not wrapped and not a crash.
/// 38 concrete nines followed by exactly K symbolic characters from [0-9.].
fn check_overflow<const K: usize>() {
    let tail: [u8; K] = vk::bytes::<K>();
    let mut buf = [b'9'; 48];
    let mut i = 0;
    while i < K {
        let c = tail[i];
        vk::assume(c.is_ascii_digit() || c == b'.');
        buf[38 + i] = c;
        i += 1;
    }
    let s: &str = unsafe { std::str::from_utf8_unchecked(&buf[..38 + K]) };
    vk::note(&|| format!("literal={:?}", s));
    let got = PrettyDecimal::from_str(s);
    if got.is_ok() {
        // 96-bit mantissa: at most 29 significant digits fit; 38 leading nines never do.
        panic!("C07: literal beyond the representable range accepted (silently wrapped or truncated)");
    }
    vk_cover!(got.is_err(), "rejected");
    std::mem::forget(got);
}

#[cfg_attr(kani, kani::proof)]
#[cfg_attr(kani, kani::unwind(50))]
#[cfg_attr(kani, kani::stub(alloc::fmt::format, crate::verif_env::fmt_format_stub))]
pub fn c07_overflow_39_41() {
    check_overflow::<1>();
    check_overflow::<2>();
    check_overflow::<3>();
}

// ---------------------------------------------------------------------------------------------
// C07-H4 / C06: printing a comma-grouped value ("grouping style preserved when printed").
// ---------------------------------------------------------------------------------------------

/// Fixed-size text sink (no heap growth under the solver).
struct Sink {
    buf: [u8; 16],
    n: usize,
}

impl core::fmt::Write for Sink {
    fn write_str(&mut self, s: &str) -> core::fmt::Result {
        let b = s.as_bytes();
        let mut i = 0;
        while i < b.len() {
            if self.n >= 16 {
                return Err(core::fmt::Error);
            }
            self.buf[self.n] = b[i];
            self.n += 1;
            i += 1;
        }
        Ok(())
    }
}

/// Reference text of `(-)? m / 10^scale` with comma grouping, written from the statement: the digits of m,
/// left-padded with zeros to at least one integral digit; the integral digits in groups of three from the
/// right; `.` and exactly `scale` fraction digits when scale > 0.
fn reference_grouped(m: u16, neg: bool, scale: usize) -> ([u8; 16], usize) {
    let x = m as u32;
    let d = [(x / 10000 % 10) as u8, (x / 1000 % 10) as u8, (x / 100 % 10) as u8, (x / 10 % 10) as u8, (x % 10) as u8];
    let sig = if x >= 10000 { 5 } else if x >= 1000 { 4 } else if x >= 100 { 3 } else if x >= 10 { 2 } else { 1 };
    let total = if sig > scale + 1 { sig } else { scale + 1 }; // digits printed, <= 5
    let int_digits = total - scale;
    let mut out = [0u8; 16];
    let mut n = 0;
    if neg {
        out[n] = b'-';
        n += 1;
    }
    let mut k = 0;
    while k < total {
        // k-th printed digit is d[5 - total + k]
        if k == int_digits {
            out[n] = b'.';
            n += 1;
        } else if k > 0 && k < int_digits && (int_digits - k) % 3 == 0 {
            out[n] = b',';
            n += 1;
        }
        out[n] = b'0' + d[5 - total + k];
        n += 1;
        k += 1;
    }
    (out, n)
}

/// Every value m / 10^scale with a 16-bit mantissa and 0..=4 decimal places carrying the comma-grouped
/// format tag prints without panicking, as the reference text (so it reads back as the same number with the
/// same decimal places). `0,000.01` is such a value: accepted by from_str with the grouped tag.
#[cfg_attr(kani, kani::proof)]
#[cfg_attr(kani, kani::unwind(8))]
#[cfg_attr(kani, kani::stub(alloc::fmt::format, crate::verif_env::fmt_format_stub))]
#[cfg_attr(kani, kani::stub(alloc::alloc::alloc, crate::verif_alloc::alloc_stub))]
#[cfg_attr(kani, kani::stub(alloc::alloc::dealloc_nonnull, crate::verif_alloc::dealloc_nonnull_stub))]
#[cfg_attr(kani, kani::stub(alloc::alloc::realloc_nonnull, crate::verif_alloc::realloc_nonnull_stub))]
pub fn c07_display_grouped() {
    let m = vk::u16();
    let neg = vk::bool();
    let scale = vk::below(5) as u32;
    vk::note(&|| format!("grouped value {}{} / 10^{}", if neg { "-" } else { "" }, m, scale));
    let pd = PrettyDecimal { format: Some(Format::Comma3Dot), value: Decimal::from_parts(m as u32, 0, 0, neg, scale) };
    use core::fmt::Write as _;
    let mut sink = Sink { buf: [0; 16], n: 0 };
    let r = write!(sink, "{}", pd);
    assert!(r.is_ok(), "C07: printing a grouped value failed");
    // Decimal::from_parts normalises a negative zero to zero: there is no "-0" to print
    let (want, wn) = reference_grouped(m, neg && m != 0, scale as usize);
    assert!(sink.n == wn, "C07: printed text of a grouped value has the wrong length (digits or separators lost / invented)");
    assert!(u128::from_le_bytes(sink.buf) == u128::from_le_bytes(want), "C07: printed text of a grouped value is not the number written (value, decimal places or grouping changed)");
    vk_cover!(m < 10 && scale == 2, "value below 0.1 with two decimal places (e.g. 0,000.01)");
    vk_cover!(m >= 10000 && scale == 1, "thousands with one decimal place");
    core::mem::forget(pd);
}

#[cfg(all(test, not(kani)))]
#[test]
fn verif_replay_entry() {
    crate::vk::replay_dispatch(&[
        ("c07_literal_6", c07_literal_6 as fn()),
        ("c07_literal_10", c07_literal_10 as fn()),
        ("c07_overflow_39_41", c07_overflow_39_41 as fn()),
        ("c07_display_grouped", c07_display_grouped as fn()),
    ]);
}
