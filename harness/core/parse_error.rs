// Harnesses appended (as child module `verif_kani`) to core/src/parse/error.rs.
// C06-H1/H2: error construction terminates and stays in range for every error position,
//            including end of input. C14-H1/H2: line arithmetic on the original text.
#![allow(dead_code, unused_imports)]
use super::*;
use crate::vk;
use crate::vk_cover;
use winnow::stream::Stream as _;

fn count_nl(b: &[u8], upto: usize) -> usize {
    let mut n = 0;
    let mut i = 0;
    while i < upto {
        if b[i] == b'\n' {
            n += 1;
        }
        i += 1;
    }
    n
}

/// compute_line_number == 1 + number of '\n' strictly before pos, for any bytes (CR, high bytes).
fn check_line_number<const N: usize>() {
    let len = vk::u8() as usize;
    let pos = vk::u8() as usize;
    let raw: [u8; N] = vk::bytes::<N>();
    vk::assume(len <= N);
    vk::assume(pos <= len);
    // compute_line_number only looks at bytes; any byte value is allowed (its own test feeds a
    // position inside a multi-byte character), so the &str is formed without validation.
    let s: &str = unsafe { std::str::from_utf8_unchecked(&raw[..len]) };
    let got = compute_line_number(s, pos);
    let want = 1 + count_nl(&raw, pos);
    assert!(got == want, "C14: line number is not 1 + newlines before the position");
    vk_cover!(got == 3, "third line");
    vk_cover!(pos == len && got == 1, "position at end of a one-line text");
}

#[cfg_attr(kani, kani::proof)]
#[cfg_attr(kani, kani::unwind(10))]
pub fn c14_line_number_8() {
    check_line_number::<8>();
}

/// ParseError::new for every ASCII text of N bytes, every entry start s and every error
/// offset o with s + o <= len (winnow stops at a character boundary; for ASCII every index is one).
fn check_parse_error_ascii<const N: usize>() {
    let len = vk::u8() as usize;
    let s = vk::u8() as usize;
    let o = vk::u8() as usize;
    let raw: [u8; N] = vk::bytes::<N>();
    vk::assume(len <= N);
    vk::assume(s <= len);
    vk::assume(o <= len - s);
    let mut i = 0;
    while i < N {
        vk::assume(raw[i] < 128);
        i += 1;
    }
    let initial: &str = unsafe { std::str::from_utf8_unchecked(&raw[..len]) };
    vk::note(&|| format!("text={:?} entry_start={} error_offset={}", initial, s, o));
    run_parse_error(initial, &raw, s, o);
}

fn run_parse_error(initial: &str, raw: &[u8], s: usize, o: usize) {
    let mut input = LocatingSlice::new(initial);
    let _ = input.next_slice(s);
    let start = input.checkpoint();
    let _ = input.next_slice(o);
    let err = ParseError::new(Renderer::plain(), initial, input, start, ContextError::new());
    let imp = &err.0;
    let rest_len = initial.len() - s;
    assert!(imp.error_span.start == o, "C14: error span does not start where parsing stopped");
    assert!(imp.error_span.end >= imp.error_span.start, "C06: error span is inverted");
    assert!(imp.error_span.end <= rest_len, "C06: error span reaches beyond the end of the text");
    assert!(imp.input.len() == rest_len, "C14: diagnostic text is not the text from the entry start");
    // the renderer slices the diagnostic text at both ends of the span: a span end inside a multi-byte
    // character makes Display panic ("byte index is not a char boundary")
    assert!(
        imp.input.is_char_boundary(imp.error_span.start) && imp.input.is_char_boundary(imp.error_span.end),
        "C06: error span ends inside a multi-byte character (rendering the diagnostic would panic)"
    );
    assert!(
        imp.line_start == 1 + count_nl(raw, s),
        "C14: first reported line is not the line of the entry start in the original file"
    );
    vk_cover!(o == rest_len && rest_len > 0, "error at end of input");
    vk_cover!(o < rest_len && s > 0, "error inside, entry not at file start");
    std::mem::forget(err);
}

#[cfg_attr(kani, kani::proof)]
#[cfg_attr(kani, kani::unwind(8))]
#[cfg_attr(kani, kani::stub(alloc::fmt::format, crate::verif_env::fmt_format_stub))]
pub fn c06_parse_error_ascii_5() {
    check_parse_error_ascii::<5>();
}

/// Same with a 3-byte character in the text: "<a>あ<b>" where a, b are symbolic ASCII bytes
/// (present or not), entry start and error offset at symbolic character boundaries.
#[cfg_attr(kani, kani::proof)]
#[cfg_attr(kani, kani::unwind(9))]
#[cfg_attr(kani, kani::stub(alloc::fmt::format, crate::verif_env::fmt_format_stub))]
pub fn c06_parse_error_multibyte() {
    let pre = vk::bool();
    let post = vk::bool();
    let a = vk::u8();
    let b = vk::u8();
    let s = vk::u8() as usize;
    let o = vk::u8() as usize;
    vk::assume(a < 128 && b < 128);
    let mut raw = [0u8; 5];
    let mut n = 0;
    if pre {
        raw[n] = a;
        n += 1;
    }
    raw[n] = 0xE3;
    raw[n + 1] = 0x81;
    raw[n + 2] = 0x82;
    n += 3;
    if post {
        raw[n] = b;
        n += 1;
    }
    let initial: &str = unsafe { std::str::from_utf8_unchecked(&raw[..n]) };
    vk::assume(s <= n);
    vk::assume(o <= n - s);
    vk::assume(initial.is_char_boundary(s) && initial.is_char_boundary(s + o));
    vk::note(&|| format!("text={:?} entry_start={} error_offset={}", initial, s, o));
    run_parse_error(initial, &raw, s, o);
}

#[cfg(all(test, not(kani)))]
#[test]
fn verif_replay_entry() {
    crate::vk::replay_dispatch(&[
        ("c14_line_number_8", c14_line_number_8 as fn()),
        ("c06_parse_error_ascii_5", c06_parse_error_ascii_5 as fn()),
        ("c06_parse_error_multibyte", c06_parse_error_multibyte as fn()),
    ]);
}
