// Harnesses appended (as child module `verif_kani`) to core/src/report/eval.rs.
#![allow(dead_code, unused_imports)]
use super::*;
use crate::vk;
use crate::{vk_cover, vk_proof_models};

// Kani stubs that make the (infeasible) operator branches of the evaluator free for harnesses whose
// syntax trees contain only literal amounts. CBMC cannot resolve the niche-encoded discriminant of
// `ValueExpr` during symbolic execution and unwinds the `Paren` branch to the recursion bound; with
// the operators cut each unwound copy is only a dispatch. An expression with an operator is
// therefore *outside* those harnesses (assume(false)); C08 covers the operators.
#[cfg(kani)]
pub(crate) fn cut_binop<'ctx>(_a: Evaluated<'ctx>, _b: Evaluated<'ctx>) -> Result<Evaluated<'ctx>, EvalError>
where
    'ctx: 'ctx,
{
    kani::assume(false);
    Err(EvalError::AmountRequired)
}

#[cfg(kani)]
pub(crate) fn cut_negate<'ctx>(a: Evaluated<'ctx>) -> Evaluated<'ctx>
where
    'ctx: 'ctx,
{
    kani::assume(false);
    a
}

/// Kani stub for `<ValueExpr as Evaluable>::eval_mut` in literal-only harnesses: the `Amount` arm is
/// the original code path (`Evaluated::from_expr_amount_mut`), the `Paren` arm is cut.
#[cfg(kani)]
pub(crate) fn eval_mut_literal_only<'a, 'ctx>(
    this: &expr::ValueExpr<'a>,
    ctx: &mut ReportContext<'ctx>,
) -> Result<Evaluated<'ctx>, EvalError> {
    match this {
        expr::ValueExpr::Amount(a) => Ok(Evaluated::from_expr_amount_mut(ctx, a)),
        expr::ValueExpr::Paren(_) => {
            kani::assume(false);
            Err(EvalError::AmountRequired)
        }
    }
}

// re-export of the helpers living in private sub-modules of `eval`
pub(crate) use super::amount::verif_kani as amount_verif;
pub(crate) use super::evaluated::verif_kani as evaluated_verif;

// ---------------------------------------------------------------------------------------------
// C08: the recursive evaluator composes the operators as ordinary arithmetic over the tree:
// operands in written order, unary minus applied to its operand, errors propagated.
// Leaves are bare numbers (commodity typing of each operator: c08_typing_*), 6-bit magnitudes so
// that the solver can match the products of the evaluator with those of the reference.
// ---------------------------------------------------------------------------------------------
use crate::syntax::pretty_decimal::PrettyDecimal;
use rust_decimal::Decimal;
use std::borrow::Cow;

fn leaf(v: Decimal) -> expr::Expr<'static> {
    expr::Expr::Value(Box::new(expr::ValueExpr::Amount(expr::Amount { value: PrettyDecimal::unformatted(v), commodity: Cow::Borrowed("") })))
}

fn small() -> Decimal {
    let lo = vk::u8();
    let neg = vk::bool();
    vk::assume(lo < 64);
    Decimal::from_parts(lo as u32, 0, 0, neg, 0)
}

fn op_of(k: u8) -> expr::BinaryOp {
    match k {
        0 => expr::BinaryOp::Add,
        1 => expr::BinaryOp::Sub,
        _ => expr::BinaryOp::Mul,
    }
}

fn apply(k: u8, a: Decimal, b: Decimal) -> Decimal {
    match k {
        0 => a + b,
        1 => a - b,
        _ => a * b,
    }
}

fn bin(k: u8, l: expr::Expr<'static>, r: expr::Expr<'static>) -> expr::Expr<'static> {
    expr::Expr::Binary(expr::BinaryOpExpr { op: op_of(k), lhs: Box::new(l), rhs: Box::new(r) })
}

fn number_leaves(a: &expr::Amount) -> Result<Evaluated<'static>, EvalError> {
    Ok(Evaluated::Number(a.value.value))
}

/// shape 0: (a o1 b) o2 c   shape 1: a o1 (b o2 c)   shape 2: (-a) o1 b
fn check_tree(shape: u8) {
    let a = small();
    let b = small();
    let c = small();
    let o1 = vk::below(3);
    let o2 = vk::below(3);
    vk::note(&|| format!("shape {} a={} b={} c={} ops {} {}", shape, a, b, c, o1, o2));
    let tree = match shape {
        0 => bin(o2, bin(o1, leaf(a), leaf(b)), leaf(c)),
        1 => bin(o1, leaf(a), bin(o2, leaf(b), leaf(c))),
        _ => bin(o1, expr::Expr::Unary(expr::UnaryOpExpr { op: expr::UnaryOp::Negate, expr: Box::new(leaf(a)) }), leaf(b)),
    };
    let want = match shape {
        0 => apply(o2, apply(o1, a, b), c),
        1 => apply(o1, a, apply(o2, b, c)),
        _ => apply(o1, -a, b),
    };
    let got = tree.eval_visit(&mut number_leaves);
    match &got {
        Ok(Evaluated::Number(n)) => assert!(*n == want, "C08: expression tree does not evaluate to ordinary arithmetic (operand order / grouping / negation)"),
        Ok(_) => panic!("C08: numbers evaluated to a commodity amount"),
        Err(_) => panic!("C08: well-typed numeric expression rejected"),
    }
    vk_cover!(o1 == 1 && o2 == 2, "subtraction inside, multiplication outside");
    core::mem::forget(got);
    core::mem::forget(tree);
}

vk_proof_models! { unwind 6; fn c08_tree_left() { check_tree(0); } }
vk_proof_models! { unwind 6; fn c08_tree_right() { check_tree(1); } }
vk_proof_models! { unwind 6; fn c08_tree_negated() { check_tree(2); } }

#[cfg(all(test, not(kani)))]
#[test]
fn verif_replay_entry() {
    crate::vk::replay_dispatch(&[
        ("c08_tree_left", c08_tree_left as fn()),
        ("c08_tree_right", c08_tree_right as fn()),
        ("c08_tree_negated", c08_tree_negated as fn()),
    ]);
}
