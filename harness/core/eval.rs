// Harnesses appended (as child module `verif_kani`) to core/src/report/eval.rs.
#![allow(dead_code, unused_imports)]
use super::*;
use crate::vk;
use crate::{vk_cover, vk_proof_models};

// Kani stubs that make the (infeasible) operator branches of the evaluator free for harnesses whose
// syntax trees contain only literal amounts. CBMC cannot resolve the niche-encoded discriminant of
// `ValueExpr` during symbolic execution and unwinds the `Paren` branch to the recursion bound; with
// the operators cut each unwound copy is only a dispatch. An expression with an operator is
// therefore *outside* those harnesses (assume(false)); C08 covers the operators.
#[cfg(kani)]
pub(crate) fn cut_binop<'ctx>(_a: Evaluated<'ctx>, _b: Evaluated<'ctx>) -> Result<Evaluated<'ctx>, EvalError>
where
    'ctx: 'ctx,
{
    kani::assume(false);
    Err(EvalError::AmountRequired)
}

#[cfg(kani)]
pub(crate) fn cut_negate<'ctx>(a: Evaluated<'ctx>) -> Evaluated<'ctx>
where
    'ctx: 'ctx,
{
    kani::assume(false);
    a
}

/// Kani stub for `<ValueExpr as Evaluable>::eval_mut` in literal-only harnesses: the `Amount` arm is
/// the original code path (`Evaluated::from_expr_amount_mut`), the `Paren` arm is cut.
#[cfg(kani)]
pub(crate) fn eval_mut_literal_only<'a, 'ctx>(
    this: &expr::ValueExpr<'a>,
    ctx: &mut ReportContext<'ctx>,
) -> Result<Evaluated<'ctx>, EvalError> {
    match this {
        expr::ValueExpr::Amount(a) => Ok(Evaluated::from_expr_amount_mut(ctx, a)),
        expr::ValueExpr::Paren(_) => {
            kani::assume(false);
            Err(EvalError::AmountRequired)
        }
    }
}

// re-export of the helpers living in private sub-modules of `eval`
pub(crate) use super::amount::verif_kani as amount_verif;
