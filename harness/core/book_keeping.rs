// Harnesses appended (as child module `verif_kani`) to core/src/report/book_keeping.rs.
// C01 acceptance predicate, C02 assertions, C03 inference, C06 division sites.
#![allow(dead_code, unused_imports)]
use super::*;
use crate::report::commodity::Commodity;
use crate::report::context::Account;
use crate::report::intern::FromInterned;
use crate::syntax::pretty_decimal::PrettyDecimal;
use crate::vk;
use crate::{vk_cover, vk_proof_models};
use rust_decimal::{Decimal, RoundingStrategy};

pub(crate) static CNAMES: [&str; 3] = ["X", "Y", "Z"];
pub(crate) static ANAMES: [&str; 3] = ["A", "B", "C"];

pub(crate) fn commodity(i: usize) -> Commodity<'static> {
    Commodity::from_interned(crate::report::intern::verif_kani::interned(CNAMES[i]))
}

pub(crate) fn account(i: usize) -> Account<'static> {
    Account::from_interned(crate::report::intern::verif_kani::interned(ANAMES[i]))
}

/// A decimal with a symbolic 16-bit mantissa and sign at a concrete scale.
pub(crate) fn dec16(scale: u32) -> Decimal {
    let lo = vk::u16();
    let neg = vk::bool();
    Decimal::from_parts(lo as u32, 0, 0, neg, scale)
}

pub(crate) fn date0() -> NaiveDate {
    NaiveDate::from_ymd_opt(2024, 1, 1).unwrap()
}

fn round_like_okane(v: Decimal, dp: Option<u32>) -> Decimal {
    match dp {
        None => v,
        Some(dp) => v.round_dp_with_strategy(dp, RoundingStrategy::MidpointNearestEven),
    }
}

/// C01-H1: the acceptance predicate of check_balance on a residual over K commodities.
/// X: scale 0, no declared precision. Y: scale 2, declared precision 1 when `prec`
/// (so half-unit rounding boundaries x.x5 are inside the space). Z: scale 0.
struct ResidualOutcome {
    ok: bool,
    nz: u8,
    rounded_to_zero: bool,
}

fn check_residual(k: usize) -> ResidualOutcome {
    let v0 = dec16(0);
    let v1 = dec16(2);
    let v2 = dec16(0);
    let prec = vk::bool();
    vk::order_nondet(true);
    let arena = bumpalo::Bump::new();
    let arena: &'static bumpalo::Bump = unsafe { &*(&arena as *const bumpalo::Bump) };
    let mut ctx = ReportContext::new(arena);
    if prec {
        ctx.commodities
            .set_format(commodity(1), PrettyDecimal::unformatted(Decimal::from_parts(0, 0, 0, false, 1)));
    }
    vk::note(&|| format!("residual: {} X, {} Y (precision 1 declared: {}), {} Z; commodities used: {}", v0, v1, prec, v2, k));
    let residual = match k {
        1 => Amount::from_values([(v0, commodity(0))]),
        2 => Amount::from_values([(v0, commodity(0)), (v1, commodity(1))]),
        _ => Amount::from_values([(v0, commodity(0)), (v1, commodity(1)), (v2, commodity(2))]),
    };
    let r0 = v0;
    let r1 = if k >= 2 { round_like_okane(v1, if prec { Some(1) } else { None }) } else { Decimal::ZERO };
    let r2 = if k >= 3 { v2 } else { Decimal::ZERO };
    let nz = (!r0.is_zero()) as u8 + (!r1.is_zero()) as u8 + (!r2.is_zero()) as u8;
    let pos = (!r0.is_zero() && r0.is_sign_positive()) as u8
        + (!r1.is_zero() && r1.is_sign_positive()) as u8
        + (!r2.is_zero() && r2.is_sign_positive()) as u8;
    let mut price_repos = PriceRepositoryBuilder::default();
    let mut postings = bcc::Vec::new_in(arena);
    let res = check_balance(&ctx, &mut price_repos, &mut postings, date0(), residual);
    match &res {
        Ok(()) => {
            if nz != 0 {
                assert!(nz != 1, "C01: transaction with a single non-zero commodity total accepted");
                assert!(nz == 2, "C01: transaction with three non-zero commodity totals accepted");
                assert!(pos == 1, "C01: two non-zero totals of the same sign accepted as an implied exchange");
                #[cfg(kani)]
                assert!(
                    crate::report::price_db::verif_kani::recorded_events() == 1,
                    "C01: implied exchange did not record exactly one price"
                );
            }
        }
        Err(e) => {
            assert!(nz != 0, "C01: transaction whose rounded totals are all zero rejected");
            assert!(
                matches!(e, BookKeepError::UnbalancedPostings(_)),
                "C01: unbalanced transaction rejected with an unrelated error"
            );
        }
    }
    let out = ResidualOutcome { ok: res.is_ok(), nz, rounded_to_zero: prec && !v1.is_zero() && r1.is_zero() };
    core::mem::forget(res);
    core::mem::forget(price_repos);
    core::mem::forget(postings);
    core::mem::forget(ctx);
    out
}

// insert_price is replaced by a recorder that asserts what book-keeping may hand to the price
// repository (both sides non-zero and positive, different commodities); insert_price itself is
// verified for exactly those events by c09_insert_price (assume/guarantee).
vk_proof_models! {
    #[cfg_attr(kani, kani::stub(crate::report::price_db::PriceRepositoryBuilder::insert_price, crate::report::price_db::verif_kani::insert_price_recorder_strict))]
    unwind 6; fn c01_residual_1() {
        let o = check_residual(1);
        vk_cover!(o.ok && o.nz == 0, "accepted: all totals zero");
        vk_cover!(!o.ok, "rejected");
    } }
vk_proof_models! {
    #[cfg_attr(kani, kani::stub(crate::report::price_db::PriceRepositoryBuilder::insert_price, crate::report::price_db::verif_kani::insert_price_recorder_strict))]
    unwind 6; fn c01_residual_2() {
        let o = check_residual(2);
        vk_cover!(o.ok && o.nz == 0, "accepted: all totals zero");
        vk_cover!(!o.ok, "rejected");
        vk_cover!(o.ok && o.nz == 2, "accepted: implied exchange");
        vk_cover!(o.ok && o.rounded_to_zero, "accepted: total rounds to zero at declared precision");
    } }
vk_proof_models! {
    #[cfg_attr(kani, kani::stub(crate::report::price_db::PriceRepositoryBuilder::insert_price, crate::report::price_db::verif_kani::insert_price_recorder_strict))]
    unwind 6; fn c01_residual_3() {
        let o = check_residual(3);
        vk_cover!(o.ok && o.nz == 0, "accepted: all totals zero");
        vk_cover!(!o.ok, "rejected");
        vk_cover!(o.ok && o.rounded_to_zero, "accepted: total rounds to zero at declared precision");
    } }

// ---------------------------------------------------------------------------------------------
// Posting level: process_posting / ComputedPosting / Exchange on real syntax trees.
// Commodity and account *names* are concrete per call (a symbolically selected `&str` drags
// memcmp over symbolic pointers into the query); same-vs-different commodity cases are separate
// concrete calls. Values, signs, zero-ness and the pre-balance are symbolic.
// ---------------------------------------------------------------------------------------------
use crate::syntax::expr as sx;
use crate::report::eval::Evaluated;
use crate::syntax::tracked::verif_kani::span;
use std::borrow::Cow;

fn lit(v: Decimal, c: &'static str) -> sx::ValueExpr<'static> {
    sx::ValueExpr::Amount(sx::Amount { value: PrettyDecimal::unformatted(v), commodity: Cow::Borrowed(c) })
}

fn tracked<T>(v: T, a: usize, b: usize) -> Tracked<T> {
    Tracked::new(v, span(a, b))
}

#[derive(Clone, Copy, PartialEq, Eq)]
enum Ann {
    None,
    CostRate,
    CostTotal,
    LotRate,
    LotTotal,
    LotRateCostRate,
}

fn mk_posting_amount(
    v: Decimal,
    c: &'static str,
    ann: Ann,
    r1: Decimal,
    rc1: &'static str,
    r2: Decimal,
    rc2: &'static str,
) -> syntax::tracked::PostingAmount<'static> {
    let cost = match ann {
        Ann::CostRate => Some(tracked(syntax::Exchange::Rate(lit(r1, rc1)), 30, 40)),
        Ann::CostTotal => Some(tracked(syntax::Exchange::Total(lit(r1, rc1)), 30, 40)),
        Ann::LotRateCostRate => Some(tracked(syntax::Exchange::Rate(lit(r2, rc2)), 30, 40)),
        _ => None,
    };
    let lot = match ann {
        Ann::LotRate | Ann::LotRateCostRate => Some(tracked(syntax::Exchange::Rate(lit(r1, rc1)), 20, 28)),
        Ann::LotTotal => Some(tracked(syntax::Exchange::Total(lit(r1, rc1)), 20, 28)),
        _ => None,
    };
    syntax::PostingAmount {
        amount: tracked(lit(v, c), 10, 18),
        cost,
        lot: syntax::Lot { price: lot, date: None, note: None },
    }
}

fn new_ctx() -> ReportContext<'static> {
    let arena: &'static bumpalo::Bump = Box::leak(Box::new(bumpalo::Bump::new()));
    ReportContext::new(arena)
}

/// C01-H2'/H3: one posting `v X <annotation>`: the value it contributes to the transaction total is
/// lot price, else cost, else its own amount (rate x quantity; total with the sign of the quantity);
/// zero rate, rate in the amount's own commodity, and a rate on a commodity-less zero are rejected
/// with their dedicated errors.
fn check_valuation(ann: Ann, same_commodity: bool) -> (bool, bool) {
    let v = dec16(0);
    let r1 = dec16(2);
    let r2 = dec16(0);
    let bare_zero = vk::bool(); // the amount is written as a bare `0` (no commodity)
    let mut ctx = new_ctx();
    let (c, rc): (&'static str, &'static str) = if same_commodity { ("X", "X") } else { ("X", "Y") };
    let pa = if bare_zero {
        vk::assume(v.is_zero());
        mk_posting_amount(v, "", ann, r1, rc, r2, "Z")
    } else {
        mk_posting_amount(v, c, ann, r1, rc, r2, "Z")
    };
    vk::note(&|| format!("posting amount {} {:?} annotation#{} r1={} {} r2={} Z", v, if bare_zero { "" } else { c }, ann as u8, r1, rc, r2));
    let got = ComputedPosting::compute_from_syntax(&mut ctx, &pa);
    let has_ann = ann != Ann::None;
    let zero_rate = match ann {
        Ann::None => false,
        Ann::LotRateCostRate => r1.is_zero() || r2.is_zero(),
        _ => r1.is_zero(),
    };
    match &got {
        Err(e) => {
            // the only reasons to reject a single-literal posting amount
            let legit = has_ann && (zero_rate || bare_zero || same_commodity);
            assert!(legit, "C01: well-formed posting amount rejected");
            match e {
                BookKeepError::ZeroExchangeRate(_) => assert!(zero_rate, "C01: ZeroExchangeRate without a zero rate"),
                BookKeepError::ZeroAmountWithExchange(_) => assert!(bare_zero, "C01: ZeroAmountWithExchange on a commodity amount"),
                BookKeepError::ExchangeWithAmountCommodity { .. } => assert!(same_commodity, "C01: ExchangeWithAmountCommodity with different commodities"),
                _ => panic!("C01: posting amount rejected with an unrelated error"),
            }
        }
        Ok(cp) => {
            assert!(!(has_ann && zero_rate), "C01: zero cost / lot rate accepted");
            assert!(!(has_ann && bare_zero), "C01: cost / lot on a commodity-less zero accepted");
            assert!(!(has_ann && same_commodity), "C01: cost / lot in the amount's own commodity accepted");
            let bal = cp.calculate_balance_amount();
            let conv = cp.calculate_converted_amount();
            // C09: the ledger-derived price this posting feeds into the price store: none without an annotation;
            // otherwise the written cost (the current price), else the lot price: `@ r` / `{r}` say 1 X = r,
            // `@@ t` / `{{t}}` say |v| X = t.
            let ev = posting_price_event(date0(), cp);
            match (&ev, ann) {
                (Ok(None), Ann::None) => {}
                (Ok(Some(e)), a) if a != Ann::None => {
                    assert!(e.date == date0(), "C09: price event not dated by the transaction");
                    let (is_total, pr, pc): (bool, Decimal, &str) = match a {
                        Ann::CostTotal | Ann::LotTotal => (true, r1, "Y"),
                        Ann::LotRateCostRate => (false, r2, "Z"),
                        _ => (false, r1, "Y"),
                    };
                    assert!(e.price_x.commodity.as_str() == "X", "C09: price event is not about the posting's commodity");
                    if is_total {
                        assert!(e.price_x.value == v.abs(), "C09: a total price must be recorded for the quantity it was paid for");
                    } else {
                        assert!(e.price_x.value == Decimal::ONE, "C09: a per-unit price must be recorded for one unit");
                    }
                    assert!(e.price_y.value == pr && e.price_y.commodity.as_str() == pc, "C09: the recorded price is not the written cost (else lot) price");
                }
                _ => panic!("C09: a posting without cost / lot records a price, or a priced posting records none"),
            }
            core::mem::forget(ev);
            match ann {
                Ann::None => {
                    let b = bal.expect("plain amount has a balancing value");
                    if bare_zero {
                        assert!(b == PostingAmount::Zero, "C01: bare zero does not balance as zero");
                    } else {
                        match b {
                            PostingAmount::Single(sa) => {
                                assert!(sa.value == v && sa.commodity.as_str() == "X", "C01: plain posting is not valued at its own amount");
                            }
                            PostingAmount::Zero => panic!("C01: commodity amount valued as bare zero"),
                        }
                    }
                    assert!(matches!(conv, Ok(None)), "C01: converted amount without cost or lot");
                }
                _ => {
                    // governing exchange for balancing: lot, else cost. r1 is the lot price when a lot is
                    // written, otherwise the cost.
                    let want = match ann {
                        Ann::CostRate | Ann::LotRate | Ann::LotRateCostRate => r1 * v,
                        _ => {
                            let mut t = r1;
                            t.set_sign_positive(v.is_sign_positive());
                            t
                        }
                    };
                    let b = bal.expect("annotated single amount has a balancing value");
                    match b {
                        PostingAmount::Single(sa) => {
                            assert!(sa.commodity.as_str() == "Y", "C01: balancing value is not in the price commodity");
                            assert!(sa.value == want, "C01: balancing value is not lot-else-cost (rate x quantity, total with the quantity's sign)");
                        }
                        PostingAmount::Zero => panic!("C01: annotated posting valued as bare zero"),
                    }
                    // the converted (cost basis) amount prefers cost, else lot
                    let cv = conv.expect("converted amount computable").expect("converted amount present");
                    if ann == Ann::LotRateCostRate {
                        assert!(cv.commodity.as_str() == "Z" && cv.value == r2 * v, "C01: converted amount is not the cost when both cost and lot are given");
                    } else {
                        assert!(cv.commodity.as_str() == "Y" && cv.value == want, "C01: converted amount differs from the written cost / lot");
                    }
                }
            }
        }
    }
    let out = (got.is_ok(), matches!(got, Err(BookKeepError::ZeroExchangeRate(_))));
    core::mem::forget(got);
    core::mem::forget(pa);
    core::mem::forget(ctx);
    out
}

vk_proof_models! { unwind 6; fn c01_valuation_plain() { let o = check_valuation(Ann::None, false); vk_cover!(o.0, "accepted"); } }
vk_proof_models! { unwind 6; fn c01_valuation_cost_rate() { let o = check_valuation(Ann::CostRate, false); vk_cover!(o.0, "accepted"); vk_cover!(o.1, "zero rate rejected"); } }
vk_proof_models! { unwind 6; fn c01_valuation_cost_total() { let o = check_valuation(Ann::CostTotal, false); vk_cover!(o.0, "accepted"); vk_cover!(o.1, "zero rate rejected"); } }
vk_proof_models! { unwind 6; fn c01_valuation_lot_rate() { let o = check_valuation(Ann::LotRate, false); vk_cover!(o.0, "accepted"); vk_cover!(o.1, "zero rate rejected"); } }
vk_proof_models! { unwind 6; fn c01_valuation_lot_total() { let o = check_valuation(Ann::LotTotal, false); vk_cover!(o.0, "accepted"); vk_cover!(o.1, "zero rate rejected"); } }
vk_proof_models! { unwind 6; fn c01_valuation_lot_and_cost() { let o = check_valuation(Ann::LotRateCostRate, false); vk_cover!(o.0, "accepted"); vk_cover!(o.1, "zero rate rejected"); } }
vk_proof_models! { unwind 6; fn c01_valuation_same_commodity() { let o = check_valuation(Ann::CostRate, true); vk_cover!(!o.0 && !o.1, "rejected: rate in the amount's own commodity"); vk_cover!(o.1, "zero rate rejected"); } }



// ---------------------------------------------------------------------------------------------
// C02 / C03: one posting step from an arbitrary valid running balance (inductive step: the
// pre-balance is *any* balance the Balance API can produce for account A over {X, Y}).
// ---------------------------------------------------------------------------------------------
use crate::report::eval::verif_kani::amount_verif::{n_entries, part};

struct Step {
    ctx: ReportContext<'static>,
    bal: Balance<'static>,
    acc: Account<'static>,
    cx: Commodity<'static>,
    cy: Commodity<'static>,
    a: Decimal,
    b: Decimal,
}

/// Arbitrary pre-state: account A holds a X and b Y (each possibly zero = absent); with
/// `bystander` another account B holds 7 X which no step on A may touch.
fn pre_state() -> Step {
    pre_state_opt(false)
}

fn pre_state_opt(bystander: bool) -> Step {
    let a = dec16(0);
    let b = dec16(0);
    let mut ctx = new_ctx();
    let acc = ctx.accounts.ensure("A");
    let cx = ctx.commodities.ensure("X");
    let cy = ctx.commodities.ensure("Y");
    let mut bal = Balance::default();
    bal.add_posting_amount(acc, PostingAmount::Single(SingleAmount::from_value(a, cx)));
    bal.add_posting_amount(acc, PostingAmount::Single(SingleAmount::from_value(b, cy)));
    if bystander {
        let other = ctx.accounts.ensure("B");
        bal.add_posting_amount(other, PostingAmount::Single(SingleAmount::from_value(Decimal::from_parts(7, 0, 0, false, 0), cx)));
    }
    Step { ctx, bal, acc, cx, cy, a, b }
}

fn bystander_untouched(st: &Step) -> bool {
    let other = match st.ctx.accounts.resolve("B") {
        Some(o) => o,
        None => return true, // harness without a bystander
    };
    match st.bal.get(&other) {
        Some(am) => n_entries(am) == 1 && part(am, st.cx).0 == Decimal::from_parts(7, 0, 0, false, 0),
        None => false,
    }
}

fn mk_posting(
    amount: Option<(Decimal, &'static str)>,
    balance: Option<(Decimal, &'static str)>,
) -> syntax::tracked::Posting<'static> {
    syntax::Posting {
        account: tracked(Cow::Borrowed("A"), 2, 3),
        clear_state: syntax::ClearState::Uncleared,
        amount: amount.map(|(v, c)| mk_posting_amount(v, c, Ann::None, Decimal::ZERO, "", Decimal::ZERO, "")),
        balance: balance.map(|(e, c)| tracked(lit(e, c), 50, 58)),
        metadata: Vec::new(),
    }
}

#[derive(Clone, Copy, PartialEq, Eq)]
enum AssertKind {
    SameCommodity,
    OtherCommodity,
    BareZero,
}

/// C02-H1: `A  v X = e <c>`: enforced exactly against (pre + this posting); the error carries this
/// posting's account and assertion spans; on success the account holds exactly pre + v.
fn check_assertion(kind: AssertKind) -> (bool, bool) {
    check_assertion_on(pre_state(), kind)
}

/// Pre-state in which account A was never posted to (no entry in the running balance at all).
fn pre_state_fresh() -> Step {
    let mut ctx = new_ctx();
    let acc = ctx.accounts.ensure("A");
    let cx = ctx.commodities.ensure("X");
    let cy = ctx.commodities.ensure("Y");
    Step { ctx, bal: Balance::default(), acc, cx, cy, a: Decimal::ZERO, b: Decimal::ZERO }
}

/// Pre-state of a concrete SHAPE with symbolic non-zero values, built without passing through the zero-entry
/// removal of the Balance API (whose data-dependent `retain` is what makes the arbitrary pre-state of
/// `pre_state()` expensive: 900 s / 14 GB against 150-300 s here). SHAPE 1: A holds a X; 2: A holds a X and
/// b Y; 3: A holds b Y only. Together with the fresh account these are all the states the representation
/// invariant (no stored zero) allows for one account over {X, Y}.
fn pre_state_shaped<const SHAPE: u8>() -> Step {
    let a = dec16(0);
    let b = dec16(0);
    vk::assume(!a.is_zero() && !b.is_zero());
    let mut ctx = new_ctx();
    let acc = ctx.accounts.ensure("A");
    let cx = ctx.commodities.ensure("X");
    let cy = ctx.commodities.ensure("Y");
    let amount = match SHAPE {
        1 => Amount::from_values([(a, cx)]),
        2 => Amount::from_values([(a, cx), (b, cy)]),
        _ => Amount::from_values([(b, cy)]),
    };
    let bal: Balance<'static> = [(acc, amount)].into_iter().collect();
    let (a, b) = match SHAPE {
        1 => (a, Decimal::ZERO),
        2 => (a, b),
        _ => (Decimal::ZERO, b),
    };
    Step { ctx, bal, acc, cx, cy, a, b }
}

fn check_assertion_on(mut st: Step, kind: AssertKind) -> (bool, bool) {
    // v at scale 2 and an optional declared precision of 1 for X: the assertion must be exact, not "equal
    // after rounding to the commodity's display precision"
    let v = dec16(2);
    let e = dec16(2);
    let prec = vk::bool();
    if prec {
        st.ctx.commodities.set_format(st.cx, PrettyDecimal::unformatted(Decimal::from_parts(0, 0, 0, false, 1)));
    }
    let posting = match kind {
        AssertKind::SameCommodity => mk_posting(Some((v, "X")), Some((e, "X"))),
        AssertKind::OtherCommodity => mk_posting(Some((v, "X")), Some((e, "Y"))),
        AssertKind::BareZero => mk_posting(Some((v, "X")), Some((Decimal::ZERO, ""))),
    };
    vk::note(&|| format!("pre A: {} X, {} Y; posting `A  {} X = {} #{}`; precision 1 declared for X: {}", st.a, st.b, v, e, kind as u8, prec));
    let new_x = st.a + v;
    let holds = match kind {
        AssertKind::SameCommodity => new_x == e,
        AssertKind::OtherCommodity => st.b == e,
        AssertKind::BareZero => new_x.is_zero() && st.b.is_zero(),
    };
    let got = process_posting(&mut st.ctx, &mut st.bal, date0(), st.acc, &posting);
    match &got {
        Ok((ep, pe)) => {
            assert!(holds, "C02: false balance assertion accepted");
            assert!(pe.is_none(), "C02: price event from a posting without cost or lot");
            let ep = ep.as_ref().expect("posting with an amount is evaluated");
            assert!(
                ep.amount == PostingAmount::Single(SingleAmount::from_value(v, st.cx)) && ep.balance_delta == ep.amount,
                "C02: asserted posting does not carry its written amount"
            );
        }
        Err(err) => {
            assert!(!holds, "C02: true balance assertion rejected");
            match err {
                BookKeepError::BalanceAssertionFailure { account_span, balance_span, .. } => {
                    assert!(
                        *account_span == span(2, 3) && *balance_span == span(50, 58),
                        "C02: assertion failure does not point at the failing posting"
                    );
                }
                _ => panic!("C02: false assertion reported as an unrelated error"),
            }
        }
    }
    // the posting is applied to the running balance before the assertion is evaluated, and stays applied
    let am = st.bal.get(&st.acc).expect("account exists");
    let (px, hx) = part(am, st.cx);
    let (py, hy) = part(am, st.cy);
    assert!(px == new_x && py == st.b, "C02: running balance after the posting is not pre + amount");
    assert!((hx == !new_x.is_zero()) && (hy == !st.b.is_zero()), "C04: zero-valued commodity kept in the running balance");
    assert!(bystander_untouched(&st), "C03: a posting altered another account");
    let out = (got.is_ok(), got.is_err());
    core::mem::forget(got);
    core::mem::forget(posting);
    core::mem::forget(st);
    out
}

vk_proof_models! { unwind 6; fn c02_assert_same_commodity() { let o = check_assertion(AssertKind::SameCommodity); vk_cover!(o.0, "assertion holds"); vk_cover!(o.1, "assertion fails"); } }
vk_proof_models! { unwind 6; fn c02_assert_other_commodity() { let o = check_assertion(AssertKind::OtherCommodity); vk_cover!(o.0, "assertion holds"); vk_cover!(o.1, "assertion fails"); } }
vk_proof_models! { unwind 6; fn c02_assert_fresh_account() { let o = check_assertion_on(pre_state_fresh(), AssertKind::SameCommodity); vk_cover!(o.0, "assertion holds"); vk_cover!(o.1, "assertion fails"); } }
vk_proof_models! { unwind 6; fn c02_step_two_same() { let o = check_assertion_on(pre_state_shaped::<2>(), AssertKind::SameCommodity); vk_cover!(o.0, "assertion holds"); vk_cover!(o.1, "assertion fails"); } }
vk_proof_models! { unwind 6; fn c02_step_two_other() { let o = check_assertion_on(pre_state_shaped::<2>(), AssertKind::OtherCommodity); vk_cover!(o.0, "assertion holds"); vk_cover!(o.1, "assertion fails"); } }
vk_proof_models! { unwind 6; fn c02_step_one_bare_zero() { let o = check_assertion_on(pre_state_shaped::<1>(), AssertKind::BareZero); vk_cover!(o.0, "assertion holds"); vk_cover!(o.1, "assertion fails"); } }
vk_proof_models! { unwind 6; fn c02_assert_bare_zero() { let o = check_assertion(AssertKind::BareZero); vk_cover!(o.0, "assertion holds"); vk_cover!(o.1, "assertion fails"); } }

/// C03-H3/H4: `A  = e X` and `A  = 0` without an amount.
fn check_assignment(bare_zero: bool) -> (bool, bool) {
    let mut st = pre_state();
    let e = dec16(0);
    let posting = if bare_zero { mk_posting(None, Some((Decimal::ZERO, ""))) } else { mk_posting(None, Some((e, "X"))) };
    vk::note(&|| format!("pre A: {} X, {} Y; posting `A  = {} (bare zero: {})`", st.a, st.b, e, bare_zero));
    let got = process_posting(&mut st.ctx, &mut st.bal, date0(), st.acc, &posting);
    let multi = !st.a.is_zero() && !st.b.is_zero();
    match &got {
        Ok((ep, pe)) => {
            assert!(pe.is_none(), "C03: price event from an assignment");
            let ep = ep.as_ref().expect("assignment yields an amount");
            assert!(ep.balance_delta == ep.amount && ep.converted_amount.is_none(), "C03: assigned posting balances with something else than its inferred amount");
            let am = st.bal.get(&st.acc).expect("account exists");
            if bare_zero {
                assert!(!multi, "C03: `= 0` accepted on an account holding several commodities");
                // inferred amount is minus the whole single-commodity balance; the account is empty afterwards
                let want = if !st.a.is_zero() {
                    PostingAmount::Single(SingleAmount::from_value(-st.a, st.cx))
                } else if !st.b.is_zero() {
                    PostingAmount::Single(SingleAmount::from_value(-st.b, st.cy))
                } else {
                    PostingAmount::Zero
                };
                assert!(ep.amount == want, "C03: `= 0` does not infer minus the account's balance");
                assert!(n_entries(am) == 0, "C03: `= 0` leaves something in the account");
            } else {
                match ep.amount {
                    PostingAmount::Single(sa) => {
                        assert!(sa.commodity == st.cx && sa.value == e - st.a, "C03: assigned amount is not X minus the current balance");
                    }
                    PostingAmount::Zero => panic!("C03: commodity assignment inferred a bare zero"),
                }
                let (px, hx) = part(am, st.cx);
                let (py, hy) = part(am, st.cy);
                assert!(px == e && py == st.b, "C03: assignment does not leave the account at X (or touches another commodity)");
                assert!((hx == !e.is_zero()) && (hy == !st.b.is_zero()), "C04: zero-valued commodity kept in the running balance");
            }
        }
        Err(err) => {
            assert!(bare_zero && multi, "C03: valid assignment rejected");
            assert!(matches!(err, BookKeepError::BalanceFailure(_)), "C03: `= 0` on a multi-commodity account reported as an unrelated error");
        }
    }
    assert!(bystander_untouched(&st), "C03: inference altered another account");
    let out = (got.is_ok(), got.is_err());
    core::mem::forget(got);
    core::mem::forget(posting);
    core::mem::forget(st);
    out
}

vk_proof_models! { unwind 6; fn c03_assign_commodity() { let o = check_assignment(false); vk_cover!(o.0, "assigned"); } }
vk_proof_models! { unwind 6; fn c03_assign_bare_zero() { let o = check_assignment(true); vk_cover!(o.0, "assigned"); vk_cover!(o.1, "rejected on multi-commodity account"); } }


/// C02 kernel (quick tier): the two mechanisms process_posting composes for `A  v X = e`:
/// Balance::add_posting_amount (zero entries removed) then Amount::assert_balance.
/// Commodities are static (no interning, no syntax tree), everything else symbolic.
fn check_assert_kernel(kind: AssertKind) -> (bool, bool) {
    let a = dec16(0);
    let b = dec16(0);
    let v = dec16(0);
    let e = dec16(2);
    vk::order_nondet(true);
    let acc = account(0);
    let (cx, cy) = (commodity(0), commodity(1));
    let mut bal = Balance::default();
    bal.add_posting_amount(acc, PostingAmount::Single(SingleAmount::from_value(a, cx)));
    bal.add_posting_amount(acc, PostingAmount::Single(SingleAmount::from_value(b, cy)));
    vk::note(&|| format!("pre A: {} X, {} Y; posting {} X; assertion kind #{} value {}", a, b, v, kind as u8, e));
    let expected = match kind {
        AssertKind::SameCommodity => PostingAmount::Single(SingleAmount::from_value(e, cx)),
        AssertKind::OtherCommodity => PostingAmount::Single(SingleAmount::from_value(e, cy)),
        AssertKind::BareZero => PostingAmount::Zero,
    };
    let new_x = a + v;
    let current = bal.add_posting_amount(acc, PostingAmount::Single(SingleAmount::from_value(v, cx)));
    let (px, hx) = part(current, cx);
    let (py, hy) = part(current, cy);
    assert!(px == new_x && py == b, "C02: running balance after the posting is not pre + amount");
    assert!((hx == !new_x.is_zero()) && (hy == !b.is_zero()), "C04: zero-valued commodity kept in the running balance");
    let diff = current.assert_balance(&expected);
    let holds = match kind {
        AssertKind::SameCommodity => new_x == e,
        AssertKind::OtherCommodity => b == e,
        AssertKind::BareZero => new_x.is_zero() && b.is_zero(),
    };
    assert!(diff.is_absolute_zero() == holds, "C02: assert_balance verdict differs from (balance in that commodity == asserted value)");
    if !holds {
        match kind {
            AssertKind::SameCommodity => assert!(n_entries(&diff) == 1 && part(&diff, cx).0 == e - new_x, "C02: reported difference is not asserted minus computed"),
            AssertKind::OtherCommodity => assert!(n_entries(&diff) == 1 && part(&diff, cy).0 == e - b, "C02: reported difference is not asserted minus computed"),
            AssertKind::BareZero => assert!(part(&diff, cx).0 == -new_x && part(&diff, cy).0 == -b, "C02: reported difference for `= 0` is not minus the computed balance"),
        }
    }
    let out = (holds, !holds);
    core::mem::forget(diff);
    core::mem::forget(bal);
    out
}

vk_proof_models! { unwind 6; fn c02_kernel_same_commodity() { let o = check_assert_kernel(AssertKind::SameCommodity); vk_cover!(o.0, "assertion holds"); vk_cover!(o.1, "assertion fails"); } }
vk_proof_models! { unwind 6; fn c02_kernel_other_commodity() { let o = check_assert_kernel(AssertKind::OtherCommodity); vk_cover!(o.0, "assertion holds"); vk_cover!(o.1, "assertion fails"); } }
vk_proof_models! { unwind 6; fn c02_kernel_bare_zero() { let o = check_assert_kernel(AssertKind::BareZero); vk_cover!(o.0, "assertion holds"); vk_cover!(o.1, "assertion fails"); } }


// ---------------------------------------------------------------------------------------------
// C03 deduction kernel. (Whole add_transaction harnesses were tried and dropped - again from an empty ledger state
// with concrete shapes in the second session: 1.8 M steps, > 23 GB: two postings give
// 1.7M symbolic-execution steps and exhaust 30 GB in the SAT back end — DESIGN section 7.)
// add_transaction computes `deduced = balance.negate()` from the fold of the other postings' balancing
// values and books it with `bal.add_amount(account, deduced)`.
// ---------------------------------------------------------------------------------------------
vk_proof_models! { unwind 6; fn c03_deduce_kernel() {
    let v = dec16(0);
    let w = dec16(2);
    let pre = dec16(0);
    let two = vk::bool();
    vk::order_nondet(true);
    let acc = account(0);
    let other = account(1);
    let (cx, cy) = (commodity(0), commodity(1));
    vk::note(&|| format!("sum of the other postings' balancing values: {} X{}; omitted account holds {} X", v, if two { format!(" + {} Y", w) } else { String::new() }, pre));
    // the fold add_transaction performs over the explicit postings
    let mut balance = Amount::default();
    balance += PostingAmount::Single(SingleAmount::from_value(v, cx));
    if two {
        balance += PostingAmount::Single(SingleAmount::from_value(w, cy));
    }
    balance += PostingAmount::Zero;
    let mut bal = Balance::default();
    bal.add_posting_amount(acc, PostingAmount::Single(SingleAmount::from_value(pre, cx)));
    bal.add_posting_amount(other, PostingAmount::Single(SingleAmount::from_value(Decimal::from_parts(7, 0, 0, false, 0), cx)));
    let deduced: Amount = balance.negate();
    let (dx, _) = part(&deduced, cx);
    let (dy, hy) = part(&deduced, cy);
    assert!(dx == -v, "C03: inferred amount is not minus the sum of the other postings (first commodity)");
    assert!(if two { dy == -w && hy } else { !hy }, "C03: inferred amount is not minus the sum of the other postings (second commodity)");
    bal.add_amount(acc, deduced);
    let am = bal.get(&acc).expect("account exists");
    assert!(part(am, cx).0 == pre - v, "C03: the account of the omitted posting does not move by the inferred amount");
    assert!(part(am, cy).0 == (if two { -w } else { Decimal::ZERO }), "C03: the account of the omitted posting does not receive the second commodity");
    let o = bal.get(&other).expect("bystander exists");
    assert!(n_entries(o) == 1 && part(o, cx).0 == Decimal::from_parts(7, 0, 0, false, 0), "C03: inference altered another account");
    vk_cover!(two && !v.is_zero() && !w.is_zero(), "two-commodity inferred amount");
    core::mem::forget(bal);
} }

// ---------------------------------------------------------------------------------------------
// C12-H2: `account` / `commodity` declarations as report::process handles them, in every order
// relative to the first use of the names.
// ---------------------------------------------------------------------------------------------

/// Kani stub cutting transactions out of ProcessAccumulator::process in the declaration harnesses (CBMC
/// explores every arm of the match on the entry; add_transaction does not fit the solver).
#[cfg(kani)]
pub(crate) fn cut_add_transaction<'ctx>(
    _ctx: &mut ReportContext<'ctx>,
    _price_repos: &mut PriceRepositoryBuilder<'ctx>,
    _bal: &mut Balance<'ctx>,
    _txn: &syntax::tracked::Transaction,
) -> Result<Transaction<'ctx>, BookKeepError> {
    kani::assume(false);
    Err(BookKeepError::UnbalancedPostings(String::new()))
}

fn decl_harness(commodity_decl: bool) {
    // which of the three names were already used (as canonical, by a posting / amount) before the declaration
    let used_a = vk::bool();
    let used_b = vk::bool();
    let used_c = vk::bool();
    // the declaration carries two sub-directives; each is `alias b` / `alias c` or a comment
    let with_b = vk::bool();
    let with_c = vk::bool();
    vk::note(&|| format!("{} a{}{}; before it: a used {}, b used {}, c used {}", if commodity_decl { "commodity" } else { "account" },
        if with_b { " / alias b" } else { " / ; comment" }, if with_c { " / alias c" } else { " / ; comment" }, used_a, used_b, used_c));
    let mut ctx = new_ctx();
    let mut accum = ProcessAccumulator::new();
    use std::borrow::Cow;
    let entry: syntax::tracked::LedgerEntry = if commodity_decl {
        let mut details = Vec::with_capacity(2);
        details.push(if with_b { syntax::CommodityDetail::Alias(Cow::Borrowed("b")) } else { syntax::CommodityDetail::Comment(Cow::Borrowed("x")) });
        details.push(if with_c { syntax::CommodityDetail::Alias(Cow::Borrowed("c")) } else { syntax::CommodityDetail::Comment(Cow::Borrowed("y")) });
        syntax::LedgerEntry::Commodity(syntax::CommodityDeclaration { name: Cow::Borrowed("a"), details })
    } else {
        let mut details = Vec::with_capacity(2);
        details.push(if with_b { syntax::AccountDetail::Alias(Cow::Borrowed("b")) } else { syntax::AccountDetail::Comment(Cow::Borrowed("x")) });
        details.push(if with_c { syntax::AccountDetail::Alias(Cow::Borrowed("c")) } else { syntax::AccountDetail::Comment(Cow::Borrowed("y")) });
        syntax::LedgerEntry::Account(syntax::AccountDeclaration { name: Cow::Borrowed("a"), details })
    };
    // identity = address of the interned string
    let id_acc = |ctx: &mut ReportContext<'static>, n: &str| ctx.accounts.ensure(n).as_str().as_ptr() as usize;
    let id_com = |ctx: &mut ReportContext<'static>, n: &str| ctx.commodities.ensure(n).as_str().as_ptr() as usize;
    let id = |ctx: &mut ReportContext<'static>, n: &str| if commodity_decl { id_com(ctx, n) } else { id_acc(ctx, n) };
    let pre_a = if used_a { id(&mut ctx, "a") } else { 0 };
    let pre_b = if used_b { id(&mut ctx, "b") } else { 0 };
    let pre_c = if used_c { id(&mut ctx, "c") } else { 0 };
    let r = accum.process(&mut ctx, &entry);
    // a name already canonical cannot become an alias - whichever sub-directive names it
    let conflict = (with_b && used_b) || (with_c && used_c);
    match &r {
        Err(_) => assert!(conflict, "C12: a consistent declaration was rejected"),
        Ok(()) => {
            assert!(!conflict, "C12: declaring as alias a name already in use as a canonical name was accepted (balances would split or merge silently)");
            let a = id(&mut ctx, "a");
            let b = id(&mut ctx, "b");
            let c = id(&mut ctx, "c");
            if used_a {
                assert!(a == pre_a, "C12: declaring a name that was already used changed what it refers to");
            }
            assert!((a == b) == with_b, "C12: alias b does not resolve to its canonical name (or an undeclared name was merged)");
            assert!((a == c) == with_c, "C12: alias c does not resolve to its canonical name (or an undeclared name was merged)");
            if !with_b && used_b {
                assert!(b == pre_b, "C12: an unrelated name changed what it refers to");
            }
            if !with_c && used_c {
                assert!(c == pre_c, "C12: an unrelated name changed what it refers to");
            }
        }
    }
    vk_cover!(used_a && with_b && with_c && !used_b && !used_c && r.is_ok(), "two aliases declared after the first use of the canonical name");
    vk_cover!(with_b && used_b && with_c && !used_c, "first alias conflicts, a later one does not");
    core::mem::forget(r);
    core::mem::forget(entry);
    core::mem::forget(accum);
    core::mem::forget(ctx);
}

vk_proof_models! {
    #[cfg_attr(kani, kani::stub(crate::report::book_keeping::add_transaction, crate::report::book_keeping::verif_kani::cut_add_transaction))]
    unwind 6; fn c12_declare_account() { decl_harness(false); }
}
vk_proof_models! {
    #[cfg_attr(kani, kani::stub(crate::report::book_keeping::add_transaction, crate::report::book_keeping::verif_kani::cut_add_transaction))]
    unwind 6; fn c12_declare_commodity() { decl_harness(true); }
}


#[cfg(all(test, not(kani)))]
#[test]
fn verif_replay_entry() {
    crate::vk::replay_dispatch(&[
        ("c01_residual_1", c01_residual_1 as fn()),
        ("c01_residual_2", c01_residual_2 as fn()),
        ("c01_residual_3", c01_residual_3 as fn()),
        ("c01_valuation_plain", c01_valuation_plain as fn()),
        ("c01_valuation_cost_rate", c01_valuation_cost_rate as fn()),
        ("c01_valuation_cost_total", c01_valuation_cost_total as fn()),
        ("c01_valuation_lot_rate", c01_valuation_lot_rate as fn()),
        ("c01_valuation_lot_total", c01_valuation_lot_total as fn()),
        ("c01_valuation_lot_and_cost", c01_valuation_lot_and_cost as fn()),
        ("c01_valuation_same_commodity", c01_valuation_same_commodity as fn()),
        ("c02_assert_same_commodity", c02_assert_same_commodity as fn()),
        ("c02_assert_other_commodity", c02_assert_other_commodity as fn()),
        ("c02_assert_bare_zero", c02_assert_bare_zero as fn()),
        ("c02_kernel_same_commodity", c02_kernel_same_commodity as fn()),
        ("c02_kernel_other_commodity", c02_kernel_other_commodity as fn()),
        ("c02_kernel_bare_zero", c02_kernel_bare_zero as fn()),
        ("c03_deduce_kernel", c03_deduce_kernel as fn()),
        ("c02_assert_fresh_account", c02_assert_fresh_account as fn()),
        ("c02_step_two_same", c02_step_two_same as fn()),
        ("c02_step_two_other", c02_step_two_other as fn()),
        ("c02_step_one_bare_zero", c02_step_one_bare_zero as fn()),
        ("c12_declare_account", c12_declare_account as fn()),
        ("c12_declare_commodity", c12_declare_commodity as fn()),
        ("c03_assign_commodity", c03_assign_commodity as fn()),
        ("c03_assign_bare_zero", c03_assign_bare_zero as fn()),
    ]);
}
