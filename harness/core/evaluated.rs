// Harnesses appended (as child module `verif_kani`) to core/src/report/eval/evaluated.rs.
// C08: commodity typing of the four operators and unary minus.
#![allow(dead_code, unused_imports)]
use super::*;
use crate::report::book_keeping::verif_kani::{commodity, dec16};
use crate::report::eval::verif_kani::amount_verif::{n_entries, part};
use crate::vk;
use crate::{vk_cover, vk_proof_models};

/// Reference value: a bare number, or an amount over {X, Y} (presence + value per commodity).
#[derive(Clone, Copy)]
struct RefVal {
    is_num: bool,
    num: Decimal,
    has: [bool; 2],
    val: [Decimal; 2],
}

/// Draws an operand: kind 0 = bare number, 1 = `v X`, 2 = `v Y`, 3 = `v X + w Y`.
fn draw_operand() -> (Evaluated<'static>, RefVal) {
    draw_operand_w(false)
}

/// `narrow`: 8-bit mantissas (used for `*`: equivalence of two symbolic multipliers is the classic
/// hard case for SAT; 16 x 16 bits did not finish in 15 minutes).
fn draw_operand_w(narrow: bool) -> (Evaluated<'static>, RefVal) {
    let kind = vk::below(4);
    let v = dec16(0);
    let w = dec16(0);
    if narrow {
        vk::assume(v.unpack().lo < 256 && w.unpack().lo < 256);
    }
    let (x, y) = (commodity(0), commodity(1));
    let z = Decimal::ZERO;
    match kind {
        0 => (Evaluated::Number(v), RefVal { is_num: true, num: v, has: [false, false], val: [z, z] }),
        1 => (Evaluated::Commodities(Amount::from_value(v, x)), RefVal { is_num: false, num: z, has: [true, false], val: [v, z] }),
        2 => (Evaluated::Commodities(Amount::from_value(v, y)), RefVal { is_num: false, num: z, has: [false, true], val: [z, v] }),
        _ => (
            Evaluated::Commodities(Amount::from_values([(v, x), (w, y)])),
            RefVal { is_num: false, num: z, has: [true, true], val: [v, w] },
        ),
    }
}

fn same(e: &Evaluated<'static>, r: &RefVal) -> bool {
    let (x, y) = (commodity(0), commodity(1));
    match e {
        Evaluated::Number(n) => r.is_num && *n == r.num,
        Evaluated::Commodities(a) => {
            let (vx, hx) = part(a, x);
            let (vy, hy) = part(a, y);
            !r.is_num && hx == r.has[0] && hy == r.has[1] && (!hx || vx == r.val[0]) && (!hy || vy == r.val[1])
        }
    }
}

/// op: 0 add, 1 sub, 2 mul. Reference typing table from the statement.
fn check_binop(op: u8) -> (bool, bool) {
    let (a, ra) = draw_operand_w(op == 2);
    let (b, rb) = draw_operand_w(op == 2);
    vk::order_nondet(true);
    vk::note(&|| format!("{:?} op#{} {:?}", a, op, b));
    let got = match op {
        0 => a.check_add(b),
        1 => a.check_sub(b),
        _ => a.check_mul(b),
    };
    let z = Decimal::ZERO;
    let want: Option<RefVal> = match op {
        0 | 1 => {
            if ra.is_num != rb.is_num {
                None // adding a bare number to a commodity amount is ill-typed
            } else if ra.is_num {
                Some(RefVal { is_num: true, num: if op == 0 { ra.num + rb.num } else { ra.num - rb.num }, has: [false, false], val: [z, z] })
            } else {
                // same commodity combines, different commodities are kept apart
                let mut has = [false, false];
                let mut val = [z, z];
                let mut i = 0;
                while i < 2 {
                    has[i] = ra.has[i] || rb.has[i];
                    let l = if ra.has[i] { ra.val[i] } else { z };
                    let r = if rb.has[i] { rb.val[i] } else { z };
                    val[i] = if op == 0 { l + r } else { l - r };
                    i += 1;
                }
                Some(RefVal { is_num: false, num: z, has, val })
            }
        }
        _ => {
            if ra.is_num && rb.is_num {
                Some(RefVal { is_num: true, num: ra.num * rb.num, has: [false, false], val: [z, z] })
            } else if !ra.is_num && !rb.is_num {
                None // multiplying two commodity amounts is ill-typed
            } else {
                let (amt, k) = if ra.is_num { (rb, ra.num) } else { (ra, rb.num) };
                Some(RefVal { is_num: false, num: z, has: amt.has, val: [amt.val[0] * k, amt.val[1] * k] })
            }
        }
    };
    match (&got, &want) {
        (Ok(g), Some(w)) => assert!(same(g, w), "C08: operator result differs from ordinary arithmetic per commodity"),
        (Err(_), None) => {}
        (Ok(_), None) => panic!("C08: ill-typed operation produced a value"),
        (Err(_), Some(_)) => panic!("C08: well-typed operation rejected"),
    }
    let out = (got.is_ok(), got.is_err());
    core::mem::forget(got);
    out
}

vk_proof_models! { unwind 6; fn c08_typing_add() { let o = check_binop(0); vk_cover!(o.0, "well-typed"); vk_cover!(o.1, "ill-typed rejected"); } }
vk_proof_models! { unwind 6; fn c08_typing_sub() { let o = check_binop(1); vk_cover!(o.0, "well-typed"); vk_cover!(o.1, "ill-typed rejected"); } }
vk_proof_models! { unwind 6; fn c08_typing_mul() { let o = check_binop(2); vk_cover!(o.0, "well-typed"); vk_cover!(o.1, "ill-typed rejected"); } }

/// Division: by zero rejected; number / number and amount / number well typed (quotient checked for
/// sign and zero-ness only: the decimal model leaves inexact quotients uninterpreted); amount / amount
/// and number / multi-commodity amount ill typed.
vk_proof_models! { unwind 6; fn c08_typing_div() {
    let (a, ra) = draw_operand();
    let (b, rb) = draw_operand();
    vk::order_nondet(true);
    vk::note(&|| format!("{:?} / {:?}", a, b));
    let b_zero = if rb.is_num { rb.num.is_zero() } else { (!rb.has[0] || rb.val[0].is_zero()) && (!rb.has[1] || rb.val[1].is_zero()) };
    let got = a.check_div(b);
    let (x, y) = (commodity(0), commodity(1));
    match &got {
        Err(e) => {
            let ill = b_zero || (!ra.is_num && !rb.is_num) || (ra.is_num && !rb.is_num && rb.has[0] && rb.has[1]);
            assert!(ill, "C08: well-typed division rejected");
            if b_zero {
                assert!(matches!(e, EvalError::DivideByZero), "C08: division by zero reported as something else");
            }
        }
        Ok(q) => {
            assert!(!b_zero, "C08: division by zero produced a value");
            assert!(!(!ra.is_num && !rb.is_num), "C08: dividing two commodity amounts produced a value");
            assert!(!(ra.is_num && !rb.is_num && rb.has[0] && rb.has[1]), "C08: dividing a number by a multi-commodity sum produced a value");
            match q {
                Evaluated::Number(n) => {
                    assert!(ra.is_num && rb.is_num, "C08: quotient lost its commodity");
                    assert!(n.is_zero() == ra.num.is_zero(), "C08: quotient zero-ness wrong");
                }
                Evaluated::Commodities(am) => {
                    if !ra.is_num {
                        // amount / number keeps exactly the commodities of the amount
                        let (vx, hx) = part(am, x);
                        let (vy, hy) = part(am, y);
                        assert!(hx == ra.has[0] && hy == ra.has[1], "C08: amount / number changed the set of commodities");
                        assert!((!hx || vx.is_zero() == ra.val[0].is_zero()) && (!hy || vy.is_zero() == ra.val[1].is_zero()), "C08: quotient zero-ness wrong");
                    } else {
                        assert!(n_entries(am) == 1, "C08: number / single amount is not a single amount");
                    }
                }
            }
        }
    }
    vk_cover!(got.is_ok(), "well-typed");
    vk_cover!(matches!(got, Err(EvalError::DivideByZero)), "division by zero rejected");
    core::mem::forget(got);
} }

/// Unary minus and the 'amount required' conversion: a non-zero bare number is not an amount.
vk_proof_models! { unwind 6; fn c08_negate_and_amount_required() {
    let (a, ra) = draw_operand();
    vk::order_nondet(true);
    let z = Decimal::ZERO;
    let neg = a.negate();
    let want = RefVal { is_num: ra.is_num, num: -ra.num, has: ra.has, val: [-ra.val[0], -ra.val[1]] };
    assert!(same(&neg, &want), "C08: unary minus does not negate every commodity");
    let am: Result<Amount<'static>, EvalError> = neg.try_into();
    match &am {
        Ok(x) => {
            if ra.is_num {
                assert!(ra.num.is_zero() && x.is_absolute_zero(), "C08: non-zero bare number accepted where an amount is required");
            }
        }
        Err(_) => assert!(ra.is_num && !ra.num.is_zero(), "C08: amount rejected where an amount is required"),
    }
    let _ = z;
    vk_cover!(am.is_err(), "non-zero bare number rejected");
    core::mem::forget(am);
} }

#[cfg(all(test, not(kani)))]
#[test]
fn verif_replay_entry() {
    crate::vk::replay_dispatch(&[
        ("c08_typing_add", c08_typing_add as fn()),
        ("c08_typing_sub", c08_typing_sub as fn()),
        ("c08_typing_mul", c08_typing_mul as fn()),
        ("c08_typing_div", c08_typing_div as fn()),
        ("c08_negate_and_amount_required", c08_negate_and_amount_required as fn()),
    ]);
}
