// Harnesses appended (as child module `verif_kani`) to core/src/report/eval/amount.rs.
#![allow(dead_code, unused_imports)]
use super::*;
use crate::vk;
use crate::{vk_cover, vk_proof_models};

/// Value stored for `c` (zero when absent) and whether an entry exists at all.
pub(crate) fn part<'ctx>(a: &Amount<'ctx>, c: Commodity<'ctx>) -> (Decimal, bool) {
    match a.values.get(&c) {
        Some(v) => (*v, true),
        None => (Decimal::ZERO, false),
    }
}

pub(crate) fn n_entries(a: &Amount<'_>) -> usize {
    a.values.len()
}
