// Harnesses appended (as child module `verif_kani`) to core/src/report/eval/amount.rs.
#![allow(dead_code, unused_imports)]
use super::*;
use crate::vk;
use crate::{vk_cover, vk_proof_models, vk_proof_models_fmt};

/// Value stored for `c` (zero when absent) and whether an entry exists at all.
pub(crate) fn part<'ctx>(a: &Amount<'ctx>, c: Commodity<'ctx>) -> (Decimal, bool) {
    match a.values.get(&c) {
        Some(v) => (*v, true),
        None => (Decimal::ZERO, false),
    }
}

pub(crate) fn n_entries(a: &Amount<'_>) -> usize {
    a.values.len()
}

use crate::report::book_keeping::verif_kani::{commodity, dec16};

/// C08-H2 / C13: where a single amount is required, a multi-commodity sum is rejected — whatever the
/// iteration order of the map — instead of silently becoming one of its commodities.
vk_proof_models! { unwind 6; fn c08_single_amount_required() {
    let n = vk::below(3);
    let v0 = dec16(0);
    let v1 = dec16(0);
    let swap = vk::bool();
    vk::order_nondet(true);
    let (x, y) = (commodity(0), commodity(1));
    vk::note(&|| format!("amount with {} commodities: {} X, {} Y (inserted Y first: {})", n, v0, v1, swap));
    let a = match n {
        0 => Amount::zero(),
        1 => Amount::from_values([(v0, x)]),
        _ => {
            if swap { Amount::from_values([(v1, y), (v0, x)]) } else { Amount::from_values([(v0, x), (v1, y)]) }
        }
    };
    let s: Result<SingleAmount, EvalError> = (&a).try_into();
    let p: Result<PostingAmount, EvalError> = (&a).try_into();
    match n {
        0 => {
            assert!(s.is_err(), "C08: empty amount converted to a single amount");
            assert!(p == Ok(PostingAmount::Zero), "C08: empty amount is not the bare zero posting amount");
        }
        1 => {
            assert!(s == Ok(SingleAmount::from_value(v0, x)), "C08: single-commodity amount not converted to itself");
            assert!(p == Ok(PostingAmount::Single(SingleAmount::from_value(v0, x))), "C08: single-commodity amount not converted to itself (posting)");
        }
        _ => {
            assert!(s.is_err(), "C08: multi-commodity sum accepted where a single amount is required (an arbitrary commodity is picked)");
            assert!(p.is_err(), "C08: multi-commodity sum accepted as a posting amount");
        }
    }
    vk_cover!(n == 2 && swap, "two commodities, second inserted first");
    core::mem::forget(a);
} }

/// Fixed-size text sink (no heap growth under the solver).
struct Sink {
    buf: [u8; 16],
    n: usize,
}

impl core::fmt::Write for Sink {
    fn write_str(&mut self, s: &str) -> core::fmt::Result {
        let b = s.as_bytes();
        let mut i = 0;
        while i < b.len() {
            if self.n >= 16 {
                return Err(core::fmt::Error);
            }
            self.buf[self.n] = b[i];
            self.n += 1;
            i += 1;
        }
        Ok(())
    }
}

/// C13: the inline text of a multi-commodity amount (used in error messages and `eval` output) does not
/// depend on map iteration order: two maps with equal content and independent orders print the same.
vk_proof_models_fmt! { unwind 12; fn c13_inline_display_order() {
    let swap = vk::bool();
    vk::order_nondet(true);
    let (x, y) = (commodity(0), commodity(1));
    let one = Decimal::from_parts(1, 0, 0, false, 0);
    let two = Decimal::from_parts(2, 0, 0, false, 0);
    let a = Amount::from_values([(one, x), (two, y)]);
    let b = if swap { Amount::from_values([(two, y), (one, x)]) } else { Amount::from_values([(one, x), (two, y)]) };
    use core::fmt::Write as _;
    let mut sa = Sink { buf: [0; 16], n: 0 };
    let mut sb = Sink { buf: [0; 16], n: 0 };
    write!(sa, "{}", a.as_inline_display()).unwrap();
    write!(sb, "{}", b.as_inline_display()).unwrap();
    vk::note(&|| format!("texts {:?} / {:?}", core::str::from_utf8(&sa.buf[..sa.n]), core::str::from_utf8(&sb.buf[..sb.n])));
    assert!(sa.n == sb.n, "C13: inline text of equal amounts differs in length");
    // the buffers are zero beyond n: one 128-bit comparison instead of a 16-iteration loop
    let same = u128::from_le_bytes(sa.buf) == u128::from_le_bytes(sb.buf);
    assert!(same, "C13: inline text of a multi-commodity amount depends on map iteration order");
    vk_cover!(swap, "second map built in the other insertion order");
    core::mem::forget(a);
    core::mem::forget(b);
} }

#[cfg(all(test, not(kani)))]
#[test]
fn verif_replay_entry() {
    crate::vk::replay_dispatch(&[
        ("c08_single_amount_required", c08_single_amount_required as fn()),
        ("c13_inline_display_order", c13_inline_display_order as fn()),
    ]);
}
