// Harnesses appended (as child module `verif_kani`) to golden/src/lib.rs.
// C20: the golden helper compares faithfully and only writes when told to.
//
// Under Kani the environment is three stubs (std::fs::read_to_string, std::fs::write, std::env::var)
// over a one-file symbolic file system and a three-valued UPDATE_GOLDEN. Natively (replay) the same
// scenario is set up on the real file system in a fresh temp file.
#![allow(dead_code, unused_imports)]
use super::*;
use crate::vk;
use crate::vk_cover;

/// Maximum length of the golden content and of `got` (compile-time env VERIF_GOLDEN_N, default 2).
pub const N: usize = match option_env!("VERIF_GOLDEN_N") {
    Some(s) => {
        let b = s.as_bytes();
        if b.len() == 1 && b[0] >= b'1' && b[0] <= b'8' { (b[0] - b'0') as usize } else { 2 }
    }
    None => 2,
};

#[cfg(kani)]
mod env {
    use super::N;
    pub static mut PRESENT: bool = false;
    pub static mut BYTES: [u8; N] = [0; N];
    pub static mut LEN: usize = 0;
    pub static mut ENV: u8 = 0; // 0 unset, 1 set but empty, 2 non-empty
    pub static mut WRITES: usize = 0;
    pub static mut LAST: [u8; N] = [0; N];
    pub static mut LAST_LEN: usize = 0;
    pub static mut WRITE_TOO_LONG: bool = false;

    pub fn read_to_string_stub<P: AsRef<std::path::Path>>(_p: P) -> std::io::Result<String> {
        unsafe {
            if !PRESENT {
                return Err(std::io::Error::from(std::io::ErrorKind::NotFound));
            }
            // one allocation of a concrete size per branch (symbolic-size allocations are poison for CBMC)
            let mut v: Vec<u8> = Vec::with_capacity(8);
            let mut i = 0;
            while i < N {
                if i < LEN {
                    v.push(BYTES[i]);
                }
                i += 1;
            }
            Ok(String::from_utf8_unchecked(v))
        }
    }

    pub fn write_stub<P: AsRef<std::path::Path>, C: AsRef<[u8]>>(_p: P, c: C) -> std::io::Result<()> {
        unsafe {
            let b = c.as_ref();
            WRITES += 1;
            WRITE_TOO_LONG = b.len() > N;
            LAST_LEN = b.len();
            let mut i = 0;
            while i < N {
                if i < b.len() {
                    LAST[i] = b[i];
                }
                i += 1;
            }
            // the file now holds what was written
            PRESENT = true;
            LEN = if b.len() > N { N } else { b.len() };
            let mut i = 0;
            while i < N {
                if i < LEN {
                    BYTES[i] = b[i];
                }
                i += 1;
            }
            Ok(())
        }
    }

    /// Model of `str::replace` for a non-empty pattern: naive left-to-right, non-overlapping
    /// (std's TwoWaySearcher costs minutes of symbolic execution on a 2-byte haystack).
    /// The pattern type parameter is `&str` at the only call site (`s.replace("\r\n", "\n")`).
    pub fn str_replace_stub<P: core::str::pattern::Pattern>(this: &str, from: P, to: &str) -> String {
        assert!(core::mem::size_of::<P>() == core::mem::size_of::<&str>());
        let from: &str = unsafe { core::mem::transmute_copy::<P, &str>(&from) };
        let h = this.as_bytes();
        let f = from.as_bytes();
        kani::assume(!f.is_empty());
        let mut out: Vec<u8> = Vec::with_capacity(16);
        let mut i = 0;
        while i < h.len() {
            let mut m = i + f.len() <= h.len();
            let mut k = 0;
            while m && k < f.len() {
                if h[i + k] != f[k] {
                    m = false;
                }
                k += 1;
            }
            if m {
                let t = to.as_bytes();
                let mut j = 0;
                while j < t.len() {
                    out.push(t[j]);
                    j += 1;
                }
                i += f.len();
            } else {
                out.push(h[i]);
                i += 1;
            }
        }
        unsafe { String::from_utf8_unchecked(out) }
    }

    /// Model of Result::unwrap_or_default that does not run the error's drop glue: VarError hides its
    /// discriminant in the capacity niche of an OsString and CBMC reports a spurious free of the
    /// (non-existent) OsString when `Err(NotPresent)` is dropped.
    pub fn unwrap_or_default_stub<T: Default, E>(r: Result<T, E>) -> T {
        match r {
            Ok(x) => x,
            Err(e) => {
                core::mem::forget(e);
                // T is String at the only call site. Kani 0.68 does not track the zero capacity constant of
                // `String::new()` (a pattern-type niche): dropping it is reported as a bogus free. An empty
                // string with spare capacity is observationally the same.
                assert!(core::mem::size_of::<T>() == core::mem::size_of::<String>());
                let mut s = String::from("x");
                s.clear();
                let t = unsafe { core::mem::transmute_copy::<String, T>(&s) };
                core::mem::forget(s);
                t
            }
        }
    }

    /// `std::env::var_os` reads the same three-valued environment (a change from `var(..)` to
    /// `var_os(..).is_some()` must see "set to the empty string" as set-but-empty, not loop in std's real
    /// environment lookup).
    pub fn env_var_os_stub<K: AsRef<std::ffi::OsStr>>(_k: K) -> Option<std::ffi::OsString> {
        unsafe {
            match ENV {
                0 => None,
                1 => {
                    let mut s = String::from("x");
                    s.clear();
                    Some(std::ffi::OsString::from(s))
                }
                _ => Some(std::ffi::OsString::from(String::from("1"))),
            }
        }
    }

    pub fn env_var_stub<K: AsRef<std::ffi::OsStr>>(_k: K) -> Result<String, std::env::VarError> {
        unsafe {
            match ENV {
                0 => Err(std::env::VarError::NotPresent),
                1 => {
                    // an empty value; built with a non-zero capacity because CBMC mis-tracks the
                    // capacity niche of `Ok(String::new())` inside Result<String, VarError>
                    let mut s = String::from("x");
                    s.clear();
                    Ok(s)
                }
                _ => Ok(String::from("1")),
            }
        }
    }
}

struct World {
    path: PathBuf,
    present: bool,
    content: [u8; N],
    len: usize,
    env: u8,
}

#[cfg(kani)]
fn setup(present: bool, content: [u8; N], len: usize, envv: u8) -> World {
    unsafe {
        env::PRESENT = present;
        env::BYTES = content;
        env::LEN = len;
        env::ENV = envv;
        env::WRITES = 0;
    }
    World { path: PathBuf::from("g"), present, content, len, env: envv }
}

#[cfg(not(kani))]
fn setup(present: bool, content: [u8; N], len: usize, envv: u8) -> World {
    let mut path = std::env::temp_dir();
    path.push(format!("okane-verif-golden-{}-{:?}.txt", std::process::id(), std::thread::current().id()));
    let _ = std::fs::remove_file(&path);
    if present {
        std::fs::write(&path, &content[..len]).unwrap();
    }
    match envv {
        0 => std::env::remove_var("UPDATE_GOLDEN"),
        1 => std::env::set_var("UPDATE_GOLDEN", ""),
        _ => std::env::set_var("UPDATE_GOLDEN", "1"),
    }
    World { path, present, content, len, env: envv }
}

/// (file exists now, its bytes, number of writes observed or inferred)
#[cfg(kani)]
fn observe(_w: &World) -> (bool, [u8; N], usize, usize, bool) {
    unsafe { (env::PRESENT, env::BYTES, env::LEN, env::WRITES, env::WRITE_TOO_LONG) }
}

#[cfg(not(kani))]
fn observe(w: &World) -> (bool, [u8; N], usize, usize, bool) {
    match std::fs::read(&w.path) {
        Ok(b) => {
            let mut c = [0u8; N];
            let n = b.len().min(N);
            c[..n].copy_from_slice(&b[..n]);
            let changed = !w.present || b.len() != w.len || c[..n] != w.content[..n];
            (true, c, n, changed as usize, b.len() > N)
        }
        Err(_) => (false, [0; N], 0, w.present as usize, false),
    }
}

#[cfg(not(kani))]
fn cleanup(w: &World) {
    let _ = std::fs::remove_file(&w.path);
    std::env::remove_var("UPDATE_GOLDEN");
}
#[cfg(kani)]
fn cleanup(_w: &World) {}

/// CRLF -> LF, written as a loop from the statement.
fn normalise(b: &[u8; N], len: usize) -> ([u8; N], usize) {
    let mut out = [0u8; N];
    let mut n = 0;
    let mut i = 0;
    while i < N {
        if i < len {
            if b[i] == b'\r' && i + 1 < len && b[i + 1] == b'\n' {
                // dropped
            } else {
                out[n] = b[i];
                n += 1;
            }
        }
        i += 1;
    }
    (out, n)
}

fn eq_bytes(a: &[u8; N], an: usize, b: &[u8; N], bn: usize) -> bool {
    if an != bn {
        return false;
    }
    let mut i = 0;
    let mut same = true;
    while i < N {
        if i < an && a[i] != b[i] {
            same = false;
        }
        i += 1;
    }
    same
}

/// std::io::Error keeps its kind in the tag bits of a pointer-sized word; CBMC's pointer model cannot
/// decode that tag, so every path that inspects or drops an `io::Error` (the missing-file paths of
/// Golden::new) yields spurious memory-safety failures. Those paths are outside the Kani harnesses
/// (file assumed present); natively the harness body runs them on the real file system.
fn file_present() -> bool {
    let p = vk::bool();
    #[cfg(kani)]
    vk::assume(p);
    p
}

fn draw_text() -> ([u8; N], usize) {
    let len = vk::u8() as usize;
    let raw: [u8; N] = vk::bytes::<N>();
    vk::assume(len <= N);
    let mut i = 0;
    while i < N {
        // ASCII incl. CR and LF; the helper's own tests never try line-ending differences
        vk::assume(raw[i] < 128 && raw[i] != 0);
        i += 1;
    }
    (raw, len)
}

/// C20 with UPDATE_GOLDEN unset or empty: `new` fails iff the file is absent; `assert(got)` returns iff
/// got == CRLF-normalised content; nothing is ever written or created.
struct NoUpdate {
    w: World,
    g: Option<Golden>,
    got: [u8; N],
    got_len: usize,
    equal: bool,
    had_crlf: bool,
}

fn no_update_prefix() -> NoUpdate {
    let present = file_present();
    let envv = vk::below(2); // unset or set-but-empty
    let (content, len) = draw_text();
    let (got, got_len) = draw_text();
    let w = setup(present, content, len, envv);
    vk::note(&|| format!("file present={} content={:?} UPDATE_GOLDEN={} got={:?}", present, &content[..len], ["unset", "empty"][envv as usize], &got[..got_len]));
    let g = match Golden::new(w.path.clone()) {
        Err(e) => {
            core::mem::forget(e); // io::Error drop glue is not the subject
            assert!(!present, "C20: Golden::new fails although the golden file exists");
            None
        }
        Ok(g) => {
            assert!(present, "C20: missing golden file is not an error without UPDATE_GOLDEN");
            Some(g)
        }
    };
    let (norm, nlen) = normalise(&content, len);
    let equal = eq_bytes(&norm, nlen, &got, got_len);
    NoUpdate { w, g, got, got_len, equal, had_crlf: len > nlen }
}

fn no_update_postcheck(w: &World) {
    let (now_present, now, now_len, writes, _) = observe(w);
    assert!(writes == 0, "C20: file written without UPDATE_GOLDEN");
    assert!(
        now_present == w.present && (!w.present || eq_bytes(&now, now_len, &w.content, w.len)),
        "C20: golden file created or modified without UPDATE_GOLDEN"
    );
    cleanup(w);
}

#[cfg_attr(kani, kani::proof)]
#[cfg_attr(kani, kani::unwind(6))]
#[cfg_attr(kani, kani::stub(std::fs::read_to_string, env::read_to_string_stub))]
#[cfg_attr(kani, kani::stub(std::fs::write, env::write_stub))]
#[cfg_attr(kani, kani::stub(std::env::var, env::env_var_stub))]
#[cfg_attr(kani, kani::stub(std::env::var_os, env::env_var_os_stub))]
#[cfg_attr(kani, kani::stub(str::replace, env::str_replace_stub))]
#[cfg_attr(kani, kani::stub(core::result::Result::unwrap_or_default, env::unwrap_or_default_stub))]
#[cfg_attr(kani, kani::stub(alloc::fmt::format, crate::verif_env::fmt_format_stub))]
pub fn c20_no_update_equal() {
    let mut s = no_update_prefix();
    if let Some(g) = s.g.take() {
        vk::assume(s.equal);
        let got_s: &str = unsafe { std::str::from_utf8_unchecked(&s.got[..s.got_len]) };
        g.assert(got_s); // must return: a panic here is reported by the solver
        vk_cover!(s.had_crlf, "content had a CRLF");
        core::mem::forget(g); // destruction of the model-built strings is not the subject
    }
    no_update_postcheck(&s.w);
}

#[cfg_attr(kani, kani::proof)]
#[cfg_attr(kani, kani::unwind(6))]
#[cfg_attr(kani, kani::stub(std::fs::read_to_string, env::read_to_string_stub))]
#[cfg_attr(kani, kani::stub(std::fs::write, env::write_stub))]
#[cfg_attr(kani, kani::stub(std::env::var, env::env_var_stub))]
#[cfg_attr(kani, kani::stub(std::env::var_os, env::env_var_os_stub))]
#[cfg_attr(kani, kani::stub(str::replace, env::str_replace_stub))]
#[cfg_attr(kani, kani::stub(core::result::Result::unwrap_or_default, env::unwrap_or_default_stub))]
#[cfg_attr(kani, kani::stub(alloc::fmt::format, crate::verif_env::fmt_format_stub))]
pub fn c20_no_update_mismatch() {
    let mut s = no_update_prefix();
    if let Some(g) = s.g.take() {
        vk::assume(!s.equal);
        // nothing may have been written before the comparison fails either
        let (_, _, _, writes, _) = observe(&s.w);
        assert!(writes == 0, "C20: file written without UPDATE_GOLDEN");
        vk_cover!(s.had_crlf, "differing content with a CRLF reaches assert");
        let got_s: &str = unsafe { std::str::from_utf8_unchecked(&s.got[..s.got_len]) };
        #[cfg(kani)]
        {
            g.assert(got_s);
            // only reached if assert returned
            panic!("C20: assert succeeded although got differs from the golden content");
        }
        #[cfg(not(kani))]
        {
            // natively the expected panic is caught; only its absence is a failure
            let r = std::panic::catch_unwind(std::panic::AssertUnwindSafe(|| g.assert(got_s)));
            assert!(r.is_err(), "C20: assert succeeded although got differs from the golden content");
            no_update_postcheck(&s.w);
        }
    }
}

/// C20 with UPDATE_GOLDEN non-empty: `new` succeeds also for a missing file, `assert(got)` returns and the
/// file afterwards contains exactly `got` (one write).
#[cfg_attr(kani, kani::proof)]
#[cfg_attr(kani, kani::unwind(6))]
#[cfg_attr(kani, kani::stub(std::fs::read_to_string, env::read_to_string_stub))]
#[cfg_attr(kani, kani::stub(std::fs::write, env::write_stub))]
#[cfg_attr(kani, kani::stub(std::env::var, env::env_var_stub))]
#[cfg_attr(kani, kani::stub(std::env::var_os, env::env_var_os_stub))]
#[cfg_attr(kani, kani::stub(str::replace, env::str_replace_stub))]
#[cfg_attr(kani, kani::stub(core::result::Result::unwrap_or_default, env::unwrap_or_default_stub))]
#[cfg_attr(kani, kani::stub(alloc::fmt::format, crate::verif_env::fmt_format_stub))]
pub fn c20_update() {
    let present = file_present();
    let (content, len) = draw_text();
    let (got, got_len) = draw_text();
    let w = setup(present, content, len, 2);
    let got_s: &str = unsafe { std::str::from_utf8_unchecked(&got[..got_len]) };
    vk::note(&|| format!("file present={} content={:?} UPDATE_GOLDEN=1 got={:?}", present, &content[..len], got_s));
    let g = Golden::new(w.path.clone());
    let g = match g {
        Ok(g) => g,
        Err(e) => {
            core::mem::forget(e);
            panic!("C20: Golden::new fails with UPDATE_GOLDEN set")
        }
    };
    g.assert(got_s); // must return
    core::mem::forget(g);
    let (now_present, now, now_len, writes, too_long) = observe(&w);
    assert!(now_present && !too_long && eq_bytes(&now, now_len, &got, got_len), "C20: with UPDATE_GOLDEN the file does not contain exactly `got` afterwards");
    #[cfg(kani)]
    assert!(writes == 1, "C20: not exactly one write with UPDATE_GOLDEN");
    let _ = writes;
    vk_cover!(present && got_len != len, "file replaced by different content");
    cleanup(&w);
}

#[cfg(all(test, not(kani)))]
#[test]
fn verif_replay_entry() {
    crate::vk::replay_dispatch(&[
        ("c20_no_update_equal", c20_no_update_equal as fn()),
        ("c20_no_update_mismatch", c20_no_update_mismatch as fn()),
        ("c20_update", c20_update as fn()),
    ]);
}
