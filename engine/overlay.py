"""Overlay build: a scratch copy of /repo's current working tree with the harness
modules attached as child modules and the environment models swapped in under cfg(kani).

Nothing is ever written to /repo. Every edit is an exact textual substitution; if an
expected anchor is missing (the tree was changed in a way the overlay does not understand)
OverlayError is raised and the check reports INCONCLUSIVE (exit 2), never pass/violation.
"""
import os
import re
import shutil
import subprocess
import tempfile

VERIF = os.path.dirname(os.path.dirname(os.path.abspath(__file__)))
REPO = os.environ.get("VERIF_REPO", "/repo")
SCRATCH_BASE = os.environ.get("VERIF_SCRATCH", "/var/tmp")


class OverlayError(Exception):
    pass


# harness file (relative to /verif/harness) -> source file it is appended to (relative to repo)
ATTACH = {
    "core/pretty_decimal.rs": "core/src/syntax/pretty_decimal.rs",
    "core/parse_error.rs": "core/src/parse/error.rs",
    "core/adaptor.rs": "core/src/parse/adaptor.rs",
    "core/book_keeping.rs": "core/src/report/book_keeping.rs",
    "core/balance.rs": "core/src/report/balance.rs",
    "core/amount.rs": "core/src/report/eval/amount.rs",
    "core/evaluated.rs": "core/src/report/eval/evaluated.rs",
    "core/eval.rs": "core/src/report/eval.rs",
    "core/query.rs": "core/src/report/query.rs",
    "core/price_db.rs": "core/src/report/price_db.rs",
    "core/intern.rs": "core/src/report/intern.rs",
    "core/display.rs": "core/src/syntax/display.rs",
    "core/tracked.rs": "core/src/syntax/tracked.rs",
    "core/report_error.rs": "core/src/report/error.rs",
    "cli/extract.rs": "cli/src/import/extract.rs",
    "cli/config.rs": "cli/src/import/config.rs",
    "cli/single_entry.rs": "cli/src/import/single_entry.rs",
    "cli/csv.rs": "cli/src/import/csv.rs",
    "cli/cmd.rs": "cli/src/cmd.rs",
    "golden/lib.rs": "golden/src/lib.rs",
}

# crate -> (lib.rs, [model modules])
CRATES = {
    "core": ("core/src/lib.rs", ["vk", "verif_env", "verif_bump", "verif_map", "verif_dec", "verif_heap", "verif_alloc"]),
    "cli": ("cli/src/lib.rs", ["vk", "verif_env", "verif_map", "verif_alloc"]),
    "golden": ("golden/src/lib.rs", ["vk", "verif_env", "verif_map"]),
}

# HashMap swap: file -> list of (regex on the import text, replacement). The replacement keeps
# everything on the original lines so that file:line in solver output matches /repo.
_MAP = "crate::verif_map"
HASHMAP_SWAP = {
    "core/src/report/price_db.rs": "std_collections",
    "core/src/report/intern.rs": [
        (r"use std::\{collections::HashMap, fmt::Debug, hash::Hash, iter::FusedIterator, marker::PhantomData\};",
         "#[cfg(not(kani))] use std::collections::HashMap; #[cfg(kani)] use %s::HashMap; use std::{fmt::Debug, hash::Hash, iter::FusedIterator, marker::PhantomData};" % _MAP),
        (r"base: std::collections::hash_map::Iter<'container, &'arena str, Option<InternedStr<'arena>>>,",
         "#[cfg(not(kani))] base: std::collections::hash_map::Iter<'container, &'arena str, Option<InternedStr<'arena>>>, #[cfg(kani)] base: %s::hash_map::Iter<'container, &'arena str, Option<InternedStr<'arena>>>," % _MAP),
    ],
    "core/src/report/eval/amount.rs": [
        (r"use std::\{\n    collections::\{hash_map, HashMap\},\n",
         "#[cfg(not(kani))] use std::collections::{hash_map, HashMap}; #[cfg(kani)] use %s::{hash_map, HashMap}; use std::{\n\n" % _MAP),
    ],
    "core/src/report/commodity.rs": [
        (r"use std::\{collections::HashMap, fmt::Display\};",
         "#[cfg(not(kani))] use std::collections::HashMap; #[cfg(kani)] use %s::HashMap; use std::fmt::Display;" % _MAP),
    ],
    "core/src/report/balance.rs": [
        (r"use std::collections::HashMap;",
         "#[cfg(not(kani))] use std::collections::HashMap; #[cfg(kani)] use %s::HashMap;" % _MAP),
    ],
    "core/src/syntax/display.rs": [
        (r"use std::collections::HashMap;",
         "#[cfg(not(kani))] use std::collections::HashMap; #[cfg(kani)] use %s::HashMap;" % _MAP),
    ],
    "cli/src/import/single_entry.rs": [
        (r"use std::\{borrow::Cow, collections::HashMap\};",
         "#[cfg(not(kani))] use std::collections::HashMap; #[cfg(kani)] use %s::HashMap; use std::borrow::Cow;" % _MAP),
    ],
}


_SWAPPED = {"hash_map": "verif_map", "HashMap": "verif_map", "HashSet": "verif_map", "BinaryHeap": "verif_heap"}


def _swap_std_collections(text, path):
    """Rewrites the file's import of std::collections (either `use std::collections::{..};` or the nested
    `use std::{ collections::{..}, .. };`, whatever else it lists) so that HashMap / hash_map / HashSet /
    BinaryHeap come from the models under cfg(kani). The number of lines is preserved."""
    m = re.search(r"use std::\{[^;]*?collections::\{([^}]*)\}[^;]*?\};", text, flags=re.S)
    nested = True
    if not m:
        m = re.search(r"use std::collections::\{([^}]*)\};", text)
        nested = False
    if not m:
        raise OverlayError("overlay anchor not found in %s: import of std::collections" % path)
    names = [n.strip() for n in m.group(1).split(",") if n.strip()]
    swapped = [n for n in names if n in _SWAPPED]
    kept = [n for n in names if n not in _SWAPPED]
    if not swapped:
        raise OverlayError("overlay anchor not found in %s: no HashMap/BinaryHeap in the std::collections import" % path)
    stmt = m.group(0)
    inner_old = re.search(r"collections::\{[^}]*\}", stmt).group(0)
    if kept:
        stmt_new = stmt.replace(inner_old, "collections::{%s}" % ", ".join(kept))
    elif nested:
        # drop the `collections::{..},` item, keep its line break
        stmt_new = re.sub(r"collections::\{[^}]*\},?", "", stmt)
    else:
        stmt_new = ""
    extra = " #[cfg(not(kani))] use std::collections::{%s};" % ", ".join(swapped)
    for mod in ("verif_map", "verif_heap"):
        ns = [n for n in swapped if _SWAPPED[n] == mod]
        if ns:
            extra += " #[cfg(kani)] use crate::%s::{%s};" % (mod, ", ".join(ns))
    new_stmt = stmt_new + extra
    # keep the line count: the replacement must contain as many newlines as the original statement
    missing = stmt.count("\n") - new_stmt.count("\n")
    if missing < 0:
        raise OverlayError("overlay rewrite of %s would shift line numbers" % path)
    new_stmt += "\n" * missing
    return text[:m.start()] + new_stmt + text[m.end():]


def _sub_once(text, pattern, repl, path):
    new, n = re.subn(pattern, lambda m: repl, text, count=1)
    if n != 1:
        raise OverlayError("overlay anchor not found in %s: %r" % (path, pattern[:60]))
    return new


def make_overlay(mode, crates=("core", "cli", "golden"), map_swap=True):
    """mode: 'kani' (harness modules under cfg(kani)) or 'replay' (under cfg(test), real deps)."""
    os.makedirs(SCRATCH_BASE, exist_ok=True)
    dest = tempfile.mkdtemp(prefix="okane-verif.", dir=SCRATCH_BASE)
    try:
        subprocess.run(
            ["rsync", "-a", "--exclude", "/target", "--exclude", "/.git", REPO + "/", dest + "/"],
            check=True,
        )
        guard = "kani" if mode == "kani" else "test"
        for h, src in ATTACH.items():
            hp = os.path.join(VERIF, "harness", h)
            if not os.path.exists(hp):
                continue
            if h.split("/")[0] not in crates:
                continue
            sp = os.path.join(dest, src)
            if not os.path.exists(sp):
                raise OverlayError("source file missing: %s" % src)
            with open(sp, "a") as f:
                f.write('\n#[cfg(%s)] #[path = "%s"] pub(crate) mod verif_kani;\n' % (guard, hp))
        for crate, (lib, mods) in CRATES.items():
            if crate not in crates:
                continue
            lp = os.path.join(dest, lib)
            with open(lp) as f:
                libtext = f.read()
            with open(lp, "w") as f:
                # nested kani attribute macros (15 stubs per harness) exceed the default expansion depth
                f.write('#![cfg_attr(kani, recursion_limit = "1024")]\n#![cfg_attr(kani, feature(pattern))]\n' + libtext)
            with open(lp, "a") as f:
                f.write("\n")
                for m in mods:
                    mp = os.path.join(VERIF, "models", m + ".rs")
                    if m == "vk":
                        f.write('#[cfg(any(kani, test))] #[macro_use] #[path = "%s"] pub mod vk;\n' % mp)
                    else:
                        f.write('#[cfg(kani)] #[path = "%s"] pub mod %s;\n' % (mp, m))
        if map_swap:
            for src, subs in HASHMAP_SWAP.items():
                if src.split("/")[0] not in crates:
                    continue
                sp = os.path.join(dest, src)
                with open(sp) as f:
                    text = f.read()
                if subs == "std_collections":
                    text = _swap_std_collections(text, src)
                    subs = []
                for pat, repl in subs:
                    text = _sub_once(text, pat, repl, src)
                with open(sp, "w") as f:
                    f.write(text)
        os.makedirs(os.path.join(dest, ".cargo"), exist_ok=True)
        with open(os.path.join(dest, ".cargo", "config.toml"), "a") as f:
            f.write("\n[net]\noffline = true\n")
        return dest
    except Exception:
        shutil.rmtree(dest, ignore_errors=True)
        raise


def remove_overlay(dest):
    if dest and os.path.isdir(dest) and os.path.basename(dest).startswith("okane-verif."):
        shutil.rmtree(dest, ignore_errors=True)
