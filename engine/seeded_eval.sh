#!/bin/bash
# Usage: seeded_eval.sh <seed-id> [tier]   e.g. C01-A quick
# Confirms a seeded change in a scratch worktree (suite passes, demo fails with / passes without) and runs the
# property's check against the changed tree (VERIF_REPO). Results go to /verif/seeded/<id>/eval.txt .
set -u
ID=$1; TIER=${2:-quick}
PROP=${ID%%-*}
VERIF=$(cd "$(dirname "$0")/.." && pwd)
SD=$VERIF/seeded/$ID
WT=/tmp/seed-wt-$ID-$$
OUT=$SD/eval.txt
: > $OUT
git -C /repo worktree remove --force $WT >/dev/null 2>&1
git -C /repo worktree add -q $WT HEAD || { echo "worktree failed" >> $OUT; exit 2; }
export CARGO_TARGET_DIR=/tmp/seed-target-$ID-$$   # shared per property to save rebuilds
case $PROP in C16|C17) CR=cli; PKG=okane;; C20) CR=golden; PKG=okane-golden;; *) CR=core; PKG=okane-core;; esac
run_demo() { # $1 label
  if [ -f $SD/demo.rs ]; then
    mkdir -p $WT/$CR/tests; cp $SD/demo.rs $WT/$CR/tests/seeded_demo.rs
    (cd $WT && timeout 1200 cargo test --offline -p $PKG --test seeded_demo 2>&1 | grep -E "^test result|error(\[|:)" | head -3)
    rm -f $WT/$CR/tests/seeded_demo.rs
  elif [ -f $SD/demo.sh ]; then
    (cd $WT && cargo build --offline -q -p okane 2>/dev/null; cp $SD/input* $SD/demo.sh $WT/ 2>/dev/null; mkdir -p $WT/MUTATION_X; cp $SD/* $WT/MUTATION_X/ 2>/dev/null; OKANE=$CARGO_TARGET_DIR/debug/okane RUNS=30 timeout 600 sh MUTATION_X/demo.sh > /tmp/demo-$ID.log 2>&1; echo "demo.sh exit=$?"; tail -2 /tmp/demo-$ID.log; rm -rf $WT/MUTATION_X $WT/demo.sh $WT/input*)
  fi
}
echo "== demo on clean tree" >> $OUT; run_demo clean >> $OUT 2>&1
(cd $WT && git apply $SD/patch.diff) || { echo "patch does not apply" >> $OUT; exit 2; }
echo "== test suite with the change" >> $OUT
(cd $WT && timeout 2400 cargo test --workspace --no-fail-fast --offline 2>&1 | grep -E "^test result" | awk '{p+=$4; f+=$6} END {print "passed", p, "failed", f}') >> $OUT
echo "== demo with the change" >> $OUT; run_demo mutated >> $OUT 2>&1
echo "== ./check $PROP --tier $TIER against the changed tree" >> $OUT
(cd $VERIF && VERIF_REPO=$WT VERIF_NO_EVIDENCE=1 ./check $PROP --tier $TIER 2>&1 | tail -12) >> $OUT
true
git -C /repo worktree remove --force $WT >/dev/null 2>&1
rm -rf $CARGO_TARGET_DIR
tail -14 $OUT
