"""Native replay of a solver counterexample against the unmodified okane code with the real
crates (real HashMap, rust_decimal, bumpalo): the same harness body, inputs read from the
playback vectors. Reproduced in dev or release profile => violation. Otherwise inconclusive."""
import json
import os
import re
import subprocess
import time

from . import overlay, kani_run


def write_replay_file(path, prop, harness_spec, vectors, failed, extra=None):
    os.makedirs(os.path.dirname(path), exist_ok=True)
    doc = {
        "property": prop,
        "harness": harness_spec["name"],
        "harness_file": harness_spec["file"],
        "failed_checks": [{"description": c["description"], "location": c["location"]} for c in failed],
        "inputs": vectors,
        "how_to_replay": "./check replay " + path,
    }
    if extra:
        doc.update(extra)
    with open(path, "w") as f:
        json.dump(doc, f, indent=1)
    return doc


def _run_group(cmd, cwd, env, timeout):
    """subprocess.run with the whole process group killed on timeout."""
    import signal
    p = subprocess.Popen(cmd, cwd=cwd, env=env, stdout=subprocess.PIPE, stderr=subprocess.STDOUT, text=True,
                         start_new_session=True)
    try:
        out, _ = p.communicate(timeout=timeout)
        return p.returncode, out, False
    except subprocess.TimeoutExpired:
        try:
            os.killpg(p.pid, signal.SIGKILL)
        except Exception:
            pass
        out, _ = p.communicate()
        return None, out, True


def native_replay(doc, profiles=("dev", "release"), timeout_s=600, hang_s=20, scratch=None):
    """Returns dict {profile: {reproduced, message}}."""
    crate = doc["harness_file"].split("/")[0]
    crates = ("core",) if crate == "core" else (("core", "cli") if crate == "cli" else ("golden",))
    own = scratch is None
    if own:
        scratch = overlay.make_overlay("replay", crates=crates)
    results = {}
    try:
        rf = os.path.join(scratch, "replay-input.txt")
        with open(rf, "w") as f:
            f.write(doc["harness"] + "\n")
            for v in doc["inputs"]:
                f.write(" ".join(str(b) for b in v) + "\n")
        tdir = os.path.join(scratch, "target-replay")
        env = kani_run.cargo_env(tdir)
        env["VERIF_REPLAY_FILE"] = rf
        env["RUST_BACKTRACE"] = "0"
        env["RUST_LOG"] = "off"
        for prof in profiles:
            cmd = ["cargo", "test", "--offline", "-p", kani_run.CRATE_PKG[crate], "--lib"]
            if prof == "release":
                cmd.append("--release")
            build = subprocess.run(cmd + ["--no-run"], cwd=scratch, env=env, capture_output=True, text=True,
                                   timeout=timeout_s)
            if build.returncode != 0:
                results[prof] = {"reproduced": False, "message": "replay build failed: " + build.stderr[-2000:]}
                continue
            t0 = time.time()
            rc, out, hung = _run_group(cmd + ["verif_replay_entry", "--", "--nocapture", "--test-threads", "1"],
                                       scratch, env, hang_s + 60)
            if hung:
                results[prof] = {"reproduced": True,
                                 "message": "native run did not terminate within %ds (hang)" % (hang_s + 60)}
            else:
                m = re.search(r"VK_REPLAY_RESULT harness=(\S+) reproduced=(true|false) (.*)", out)
                if m:
                    results[prof] = {"reproduced": m.group(2) == "true", "message": m.group(3)[:1500]}
                elif rc != 0:
                    # the process died (abort, stack overflow, signal) while running the harness body
                    results[prof] = {"reproduced": True,
                                     "message": "process died without result line (exit %s): %s"
                                     % (rc, out[-600:])}
                else:
                    results[prof] = {"reproduced": False, "message": "no result line: " + out[-600:]}
            results[prof]["wall_s"] = round(time.time() - t0, 1)
    finally:
        if own:
            overlay.remove_overlay(scratch)
    return results
