"""Writes seeded/<id>/meta.json and seeded/SUMMARY.md from the artefacts of each seeded change
(AGENT_README.md, patch.diff, eval*.txt written by engine/seeded_eval.sh). python3 -m engine.seeded_summary"""
import json
import os
import re

VERIF = os.path.dirname(os.path.dirname(os.path.abspath(__file__)))
SD = os.path.join(VERIF, "seeded")


def section(text, *names):
    """First markdown section whose heading contains one of the names."""
    parts = re.split(r"^#+\s+", text, flags=re.M)
    for p in parts:
        head = p.split("\n", 1)[0].lower()
        if any(n in head for n in names):
            body = p.split("\n", 1)[1] if "\n" in p else ""
            return " ".join(body.split())[:900]
    return ""


def parse_eval(path):
    if not os.path.exists(path):
        return None
    t = open(path, errors="replace").read()
    def block(name):
        m = re.search(r"== %s\n(.*?)(?=\n== |\Z)" % re.escape(name), t, flags=re.S)
        return m.group(1).strip() if m else ""
    clean, suite, mut = block("demo on clean tree"), block("test suite with the change"), block("demo with the change")
    chk = re.search(r"== \./check (\S+) --tier (\S+) against the changed tree\n(.*)", t, flags=re.S)
    verdict, lines = "not run", []
    if chk:
        lines = [l for l in chk.group(3).strip().splitlines() if l.strip()]
        if any(l.startswith("VIOLATION") for l in lines):
            verdict = "caught"
        elif any(l.startswith("INCONCLUSIVE") for l in lines):
            verdict = "inconclusive"
        elif any(l.startswith("OK property") for l in lines):
            verdict = "missed"
    return {
        "demo_on_clean_tree": clean.splitlines()[0] if clean else "",
        "suite_with_change": suite,
        "demo_with_change": next((l for l in mut.splitlines() if l.startswith("test result") or "exit=" in l), mut[:120]),
        "demo_passes_without": ("ok." in clean and "FAILED" not in clean) or "exit=0" in clean,
        "demo_fails_with": "FAILED" in mut or ("exit=" in mut and "exit=0" not in mut),
        "suite_passes_with": bool(re.search(r"failed 0\b", suite)),
        "check_verdict": verdict,
        "check_tier": chk.group(2) if chk else None,
        "check_output": lines[-8:],
        "caught_by": sorted({l.split()[0].split("/")[1] for l in lines if " FAILED " in l and "/" in l.split()[0]}),
    }


def main():
    rows = []
    notes = {}
    np = os.path.join(SD, "notes.json")
    if os.path.exists(np):
        notes = json.load(open(np))
    for sid in sorted(os.listdir(SD)):
        d = os.path.join(SD, sid)
        if not os.path.isdir(d) or not re.match(r"C\d+-", sid):
            continue
        readme = ""
        for n in ("AGENT_README.md", "README.md"):
            if os.path.exists(os.path.join(d, n)):
                readme = open(os.path.join(d, n), errors="replace").read()
                break
        title = readme.split("\n", 1)[0].lstrip("# ").strip()
        files = sorted(set(re.findall(r"^\+\+\+ b/(\S+)", open(os.path.join(d, "patch.diff")).read(), flags=re.M)))
        ev = parse_eval(os.path.join(d, "eval.txt"))
        ev_th = parse_eval(os.path.join(d, "eval_thorough.txt"))
        meta = {
            "id": sid,
            "property": sid.split("-")[0],
            "title": title,
            "files_changed": files,
            "breaks": section(readme, "which part", "part of", "breaks"),
            "needs_to_manifest": section(readme, "needed", "manifest"),
            "origin": "independent sub-agent given only the property text and a scratch worktree",
            "what_was_run": "engine/seeded_eval.sh %s: scratch worktree of /repo HEAD; demo on the clean tree; git apply patch.diff; "
                            "cargo test --workspace --no-fail-fast --offline; demo again; ./check %s --tier quick with VERIF_REPO "
                            "pointing at the changed worktree" % (sid, sid.split("-")[0]),
            "confirmed": ev and {k: ev[k] for k in ("demo_passes_without", "demo_fails_with", "suite_passes_with", "suite_with_change",
                                                   "demo_on_clean_tree", "demo_with_change")},
            "quick_check": ev and {k: ev[k] for k in ("check_verdict", "caught_by", "check_output")},
            "thorough_check": ev_th and {k: ev_th[k] for k in ("check_verdict", "caught_by", "check_output")},
            "note": notes.get(sid, ""),
        }
        with open(os.path.join(d, "meta.json"), "w") as f:
            json.dump(meta, f, indent=1)
        rows.append(meta)
    with open(os.path.join(SD, "SUMMARY.md"), "w") as f:
        f.write("# Seeded changes: which checks catch which\n\n")
        f.write("Each change was written by an independent sub-agent that saw only the property text; it compiles, passes the unedited "
                "test-suite and fails its own demonstration (re-confirmed by `engine/seeded_eval.sh`, see `<id>/eval.txt`). "
                "`caught` = the property's check printed VIOLATION (counterexample reproduced natively); `missed` = exit 0; "
                "`inconclusive` = exit 2 (solver cap / no reproducible counterexample) - never counted as caught.\n\n")
        f.write("| id | change | quick check | caught by | thorough | note |\n|---|---|---|---|---|---|\n")
        for m in rows:
            q = m["quick_check"] or {}
            t = m["thorough_check"] or {}
            f.write("| %s | %s (%s) | %s | %s | %s | %s |\n" % (
                m["id"], m["title"].replace("|", "/")[:110], ", ".join(os.path.basename(x) for x in m["files_changed"]),
                q.get("check_verdict", "-"), ", ".join(q.get("caught_by", [])) or "-", t.get("check_verdict", "-") if t else "-",
                (m["note"] or "").replace("|", "/")))
        n = len(rows)
        c = sum(1 for m in rows if (m["quick_check"] or {}).get("check_verdict") == "caught")
        ct = sum(1 for m in rows if (m["quick_check"] or {}).get("check_verdict") == "caught"
                 or (m["thorough_check"] or {}).get("check_verdict") == "caught")
        f.write("\n%d changes; caught by the quick tier: %d; by quick or thorough: %d.\n" % (n, c, ct))
    print("wrote", len(rows), "meta.json files and SUMMARY.md")


main()
