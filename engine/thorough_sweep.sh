#!/bin/bash
# Sanity sweep: every registered thorough command once on the unchanged tree, without touching the evidence
# files (those are written by the quick runs). Usage: engine/thorough_sweep.sh [ids...]
cd "$(dirname "$0")/.."
IDS=${@:-$(python3 -c "import json;print(' '.join(c['property_id'] for c in json.load(open('MANIFEST.json'))['checks']))")}
for p in $IDS; do
  echo "=== $p $(date +%T)"
  VERIF_NO_EVIDENCE=1 ./check $p --tier thorough 2>&1 | tail -n 16
  echo "exit=${PIPESTATUS[0]}"
done
