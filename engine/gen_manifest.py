"""Regenerates MANIFEST.json from the registry: python3 -m engine.gen_manifest"""
import json
import os

from . import registry, overlay

NA = {
    "C05": "needs the winnow ledger parser on symbolic text: parse_ledger on 4 symbolic bytes did not finish in 12 min / 7.7 GB under Kani, a transaction needs >= 25 bytes; no installed engine gets through the combinator stack (DESIGN C05)",
    "C11": "the mechanism is recursion over file-system calls, Path::join, glob and a sort of PathBufs; with the file system stubbed nothing of okane's logic is left to make symbolic, and the property is about how the real FS/glob enumerate (DESIGN C11)",
    "C15": "the law is parse_ledger(Display(to_double_entry(import(bytes)))): csv/quick-xml/encoding readers in front and the winnow parser behind, both beyond the solver's reach at any useful bound (DESIGN C15)",
    "C18": "iso_camt053::import deserialises with quick-xml inside the function and conservation is an end-to-end sum through import -> print -> parse -> book-keeping (DESIGN C18)",
}


def main():
    checks = []
    claimed = []
    for pid in sorted(registry.PROPERTIES):
        p = registry.PROPERTIES[pid]
        if not p["harnesses"] or p.get("disabled"):
            continue
        claimed.append(pid)
        checks.append({
            "property_id": pid,
            "quick_cmd": "./check %s --tier quick" % pid,
            "thorough_cmd": "./check %s --tier thorough" % pid,
            "evidence_file": "evidence/%s.json" % pid,
            "replay_cmd_template": "./check replay {path}",
            "engine": "kani-overlay",
            "level_claimed": {
                "category": "model_checking",
                "text": p["level_text"],
                "design_ref": "DESIGN.md section 4, " + pid,
            },
            "level_note": p["level_note"],
            "technique": p.get("technique", "bounded model checking of the real Rust code: Kani 0.68 proof harnesses "
                                            "(CBMC 6.11 + CaDiCaL) over symbolic inputs, unwinding assertions on"),
        })
    na = []
    import json as _j
    ids = [_j.loads(l)["id"] for l in open(os.path.join(overlay.VERIF, "properties.jsonl"))]
    for pid in ids:
        if pid in claimed:
            continue
        reason = NA.get(pid) or registry.PROPERTIES.get(pid, {}).get("na_reason") or \
            "no harness registered yet for this property (see DESIGN.md section 4 for the plan)"
        na.append({"property_id": pid, "reason": reason})
    man = {
        "version": 1,
        "setup_cmd": "./check setup",
        "hooks": {
            "guard": "cfg(kani) (set by cargo kani) / cfg(test) for native replay; applied to a scratch overlay copy only",
            "enable": "./check copies /repo's working tree to a scratch dir, appends `#[cfg(kani)] #[path=...] mod verif_kani;` "
                      "lines and the cfg(kani) HashMap swap there, and runs cargo kani -Z stubbing; nothing is committed to /repo",
            "baseline_off_cmd": "cd /repo && cargo test --workspace --no-fail-fast --offline",
            "source_commits": [],
            "add_only": True,
        },
        "engines": [{
            "name": "kani-overlay",
            "path": "engine/",
            "serves_properties": claimed,
            "kind_free_text": "Kani 0.68 (CBMC 6.11, CaDiCaL) bounded model checking of okane's own functions through "
                              "harness modules attached to an overlay copy of /repo; environment models in models/; "
                              "counterexamples replayed natively against the real crates before being reported",
        }],
        "checks": checks,
        "not_applicable": na,
        "notes": "Exit codes: 0 held on everything explored; 1 + VIOLATION line = counterexample reproduced natively; "
                 "2 + INCONCLUSIVE line = solver cap hit / overlay anchor missing / counterexample did not reproduce "
                 "(never reported as pass or violation). known_findings.txt lists recorded findings and fixed defects.",
    }
    with open(os.path.join(overlay.VERIF, "MANIFEST.json"), "w") as f:
        json.dump(man, f, indent=1)
    print("claimed:", claimed)


main()
