"""Runs Kani harnesses on an overlay copy and parses the solver's verdicts."""
import os
import re
import resource
import shutil
import signal
import subprocess
import time

from . import overlay

MEM_LIMIT_GB = int(os.environ.get("VERIF_MEM_GB", "18"))

CRATE_PKG = {"core": "okane-core", "cli": "okane", "golden": "okane-golden"}


def module_path(harness_file):
    """'core/pretty_decimal.rs' -> 'syntax::pretty_decimal::verif_kani'"""
    src = overlay.ATTACH[harness_file]
    parts = src.split("/")
    # parts: [crate, 'src', ...]
    rel = parts[2:]
    rel[-1] = rel[-1][:-3]
    if rel == ["lib"] or rel == ["main"]:
        rel = []
    return "::".join(rel + ["verif_kani"])


def _limits(gb=None):
    os.setsid()
    lim = (gb or MEM_LIMIT_GB) * (1 << 30)
    resource.setrlimit(resource.RLIMIT_AS, (lim, lim))


def _kill_group(p):
    try:
        os.killpg(p.pid, signal.SIGKILL)
    except Exception:
        pass


def cargo_env(target_dir, h=None):
    env = dict(os.environ)
    env.pop("VERIF_MAP_CAP", None)
    if h and h.get("map_cap"):
        env["VERIF_MAP_CAP"] = str(h["map_cap"])
    env.pop("VERIF_GOLDEN_N", None)
    if h:
        for k, v in (h.get("env") or {}).items():
            env[k] = str(v)
    env["CARGO_NET_OFFLINE"] = "true"
    env["CARGO_TARGET_DIR"] = target_dir
    env.pop("RUSTFLAGS", None)
    env.pop("RUSTUP_TOOLCHAIN", None)
    return env


def seed_target(dest_target):
    """Hard-link copy of the dependency build made by setup (if present) so that only the
    workspace crates are rebuilt. Purely an optimisation: without a seed everything is built."""
    seed = os.path.join(overlay.VERIF, ".cache", "kani-seed")
    if os.path.isdir(seed) and not os.path.exists(dest_target):
        r = subprocess.run(["cp", "-al", seed, dest_target])
        if r.returncode != 0:
            shutil.rmtree(dest_target, ignore_errors=True)


def run_harness(scratch, h, log_dir, timeout_s, extra_args=(), tag=""):
    """h: harness spec dict. Returns result dict."""
    crate = h["file"].split("/")[0]
    full = module_path(h["file"]) + "::" + h["name"]
    tdir = os.path.join(scratch, "target-" + h["name"] + tag)
    seed_target(tdir)
    cmd = [
        "cargo", "kani", "-p", CRATE_PKG[crate], "-Z", "stubbing",
        "--harness", full, "--exact", "--target-dir", tdir,
    ]
    if h.get("no_unwinding_checks"):
        cmd.append("--no-unwinding-checks")
    for a in h.get("kani_args", []):
        cmd.append(a)
    cmd += list(extra_args)
    log = os.path.join(log_dir, h["name"] + tag + ".log")
    t0 = time.time()
    open(log, "w").close()
    if h.get("recursion") or h.get("loops"):
        # Per-function recursion bounds (CBMC --unwindset on the function identifiers). The identifiers are
        # read from the goto binary of a codegen-only pre-pass; the recursion unwinding assertions stay on,
        # so a recursion that really goes deeper than the bound is reported, not truncated.
        try:
            uws = recursion_unwindset(scratch, cmd, tdir, h.get("recursion") or {}, log, h, h.get("loops") or {})
        except Exception as e:  # noqa
            uws = None
            with open(log, "a") as lf:
                lf.write("recursion pre-pass failed: %s\n" % e)
        if uws:
            cmd = cmd[:2] + ["-Z", "unstable-options"] + cmd[2:] + ["--cbmc-args", "--unwindset", uws]
        else:
            return dict(parse_kani_output(""), harness=h["name"], full_name=full, wall_s=round(time.time() - t0, 1),
                        timed_out=False, exit_code=None, log=log, peak_rss_mb=0, cmd=" ".join(cmd),
                        compile_or_cbmc_error=True)
    peak = [0]
    with open(log, "a") as lf:
        p = subprocess.Popen(cmd, cwd=scratch, stdout=lf, stderr=subprocess.STDOUT,
                             env=cargo_env(tdir, h), preexec_fn=lambda: _limits(h.get("mem_gb")))
        timed_out = False
        while True:
            try:
                p.wait(timeout=2)
                break
            except subprocess.TimeoutExpired:
                peak[0] = max(peak[0], _group_rss_kb(p.pid))
                if time.time() - t0 > timeout_s:
                    timed_out = True
                    _kill_group(p)
                    p.wait()
                    break
    wall = time.time() - t0
    with open(log, errors="replace") as lf:
        out = lf.read()
    res = parse_kani_output(out)
    res.update({
        "harness": h["name"], "full_name": full, "wall_s": round(wall, 1), "timed_out": timed_out,
        "exit_code": p.returncode, "log": log, "peak_rss_mb": peak[0] // 1024, "cmd": " ".join(cmd),
    })
    if not h.get("keep_target"):
        shutil.rmtree(tdir, ignore_errors=True)
    return res


def recursion_unwindset(scratch, cmd, tdir, limits, log, h=None, loops=None):
    """limits: {substring of the pretty function name: recursion bound}; loops: {substring: {loop number: bound}}
    (per-loop bounds, CBMC loop ids <function>.<n>; unwinding assertions stay on). Returns the --unwindset argument."""
    loops = loops or {}
    pre = [c for c in cmd if c not in ("--no-unwinding-checks",)] + ["--only-codegen"]
    with open(log, "a") as lf:
        r = subprocess.run(pre, cwd=scratch, stdout=lf, stderr=subprocess.STDOUT, env=cargo_env(tdir, h),
                           preexec_fn=_limits, timeout=900)
    if r.returncode != 0:
        raise RuntimeError("codegen-only pre-pass failed")
    outs = []
    for root, _, files in os.walk(tdir):
        for f in files:
            if f.endswith(".out") and not f.endswith(".symtab.out"):
                outs.append(os.path.join(root, f))
    if len(outs) != 1:
        raise RuntimeError("expected one goto binary, found %d" % len(outs))
    lst = subprocess.run(["goto-instrument", "--list-goto-functions", outs[0]], capture_output=True, text=True,
                         timeout=300).stdout
    entries = []
    for line in lst.splitlines():
        m = re.match(r"^(.*) /\* (\S+) \*/\s*$", line)
        if not m:
            continue
        pretty, mangled = m.group(1), m.group(2)
        for sub, bound in limits.items():
            if sub in pretty:
                entries.append("%s:%d" % (mangled, bound))
        for sub, lb in loops.items():
            if sub in pretty:
                for n, bound in lb.items():
                    entries.append("%s.%s:%d" % (mangled, n, bound))
    if not entries:
        raise RuntimeError("no function matched the recursion limits %r" % (limits,))
    with open(log, "a") as lf:
        lf.write("recursion bounds: %s\n" % ", ".join(entries))
    return ",".join(sorted(set(entries)))


def _group_rss_kb(pgid):
    try:
        out = subprocess.run(["ps", "-eo", "pgid,rss"], capture_output=True, text=True).stdout
        tot = 0
        for line in out.splitlines()[1:]:
            a = line.split()
            if len(a) == 2 and a[0] == str(pgid):
                tot += int(a[1])
        return tot
    except Exception:
        return 0


_CHECK_RE = re.compile(r"^Check (\d+): (.*?)\s*$")


def parse_kani_output(out):
    checks = []
    cur = None
    for line in out.splitlines():
        m = _CHECK_RE.match(line)
        if m:
            cur = {"id": m.group(2), "status": None, "description": "", "location": ""}
            checks.append(cur)
            continue
        if cur is not None:
            s = line.strip()
            if s.startswith("- Status:"):
                cur["status"] = s.split(":", 1)[1].strip()
            elif s.startswith("- Description:"):
                cur["description"] = s.split(":", 1)[1].strip().strip('"')
            elif s.startswith("- Location:"):
                cur["location"] = s.split(":", 1)[1].strip()
            elif s == "" or s.startswith("SUMMARY"):
                cur = None
    verdict = None
    m = re.search(r"VERIFICATION:- (SUCCESSFUL|FAILED)", out)
    if m:
        verdict = m.group(1)
    stubs = re.findall(r"^\s*- Stub: (.*)$", out, re.M)
    vt = re.search(r"Verification Time: ([0-9.]+)s", out)
    failed = [c for c in checks if c["status"] == "FAILURE"]
    undet = [c for c in checks if c["status"] == "UNDETERMINED"]
    covers = [c for c in checks if ".cover." in c["id"] or c["status"] in ("SATISFIED", "UNSATISFIABLE")]
    errors = "Status: ERROR" in out or "error: could not compile" in out or "error[E" in out
    unsupported = [c for c in failed if "unsupported" in c["description"].lower()
                   or "not currently supported" in c["description"].lower()]
    vccs = re.search(r"Generated (\d+) VCC\(s\), (\d+) remaining after simplification", out)
    symex = re.search(r"Runtime Symex: ([0-9.e+-]+)s", out)
    steps = re.search(r"size of program expression: (\d+) steps", out)
    solver = re.findall(r"Runtime Solver: ([0-9.e+-]+)s", out)
    return {
        "verdict": verdict,
        "n_checks": len(checks),
        "n_success_reachable": sum(1 for c in checks if c["status"] == "SUCCESS"),
        "failed": failed,
        "undetermined": len(undet),
        "covers": covers,
        "stubs": stubs,
        "verification_time_s": float(vt.group(1)) if vt else None,
        "compile_or_cbmc_error": bool(errors),
        "unsupported": unsupported,
        "vccs": [int(vccs.group(1)), int(vccs.group(2))] if vccs else None,
        "symex_s": float(symex.group(1)) if symex else None,
        "symex_steps": int(steps.group(1)) if steps else 0,
        "solver_s": round(sum(float(x) for x in solver), 3) if solver else None,
    }


def parse_playback(out):
    """Extracts the unit tests printed by `--concrete-playback=print`.
    Returns a list of {kind, description, vals} (kind: 'cover', 'assertion', ...)."""
    tests = []
    blocks = out.split("Concrete playback unit test for")
    for b in blocks[1:]:
        km = re.search(r"/// Check for `([^`]*)`: \"(.*)\"", b)
        m = re.search(r"let concrete_vals: Vec<Vec<u8>> = vec!\[(.*?)\n\s*\];", b, re.S)
        if not m:
            continue
        vals = []
        for vm in re.finditer(r"vec!\[([0-9,\s]*)\]", m.group(1)):
            nums = [int(x) for x in vm.group(1).replace("\n", " ").split(",") if x.strip()]
            vals.append(nums)
        tests.append({"kind": km.group(1) if km else "?", "description": km.group(2) if km else "?", "vals": vals})
    return tests
