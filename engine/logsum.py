import sys
from . import kani_run
for p in sys.argv[1:]:
    r = kani_run.parse_kani_output(open(p, errors="replace").read())
    print("==", p.split("/")[-1], r["verdict"], "vt=%s" % r["verification_time_s"], "checks=%s" % r["n_checks"])
    for c in r["failed"]:
        print("   FAIL:", c["description"], "@", c["location"][:100])
    for c in r["covers"]:
        print("   cover:", c["description"], c["status"])
