"""Developer helper: python3 -m engine.dev <harness_file> <name1,name2,...> [timeout] [extra kani args...]
env: VERIF_REPO to point at another tree; KEEP=1 keeps the scratch dir."""
import concurrent.futures as cf
import json, os, sys
from . import overlay, kani_run

def main():
    hf, names = sys.argv[1], sys.argv[2].split(",")
    timeout = int(sys.argv[3]) if len(sys.argv) > 3 else 900
    extra = sys.argv[4:]
    keep = os.environ.get("KEEP")
    crate = hf.split("/")[0]
    crates = ("core",) if crate == "core" else (("core", "cli") if crate == "cli" else ("golden",))
    scratch = overlay.make_overlay("kani", crates=crates)
    logd = os.path.join(overlay.VERIF, "logs", "dev"); os.makedirs(logd, exist_ok=True)
    try:
        with cf.ThreadPoolExecutor(max_workers=6) as ex:
            futs = {ex.submit(kani_run.run_harness, scratch, dict({"file": hf, "name": n, "keep_target": bool(os.environ.get("KEEP"))}, **dict(({"recursion": json.loads(os.environ["RECURSION"])} if os.environ.get("RECURSION") else {}), **dict(({"loops": json.loads(os.environ["LOOPS"])} if os.environ.get("LOOPS") else {}), **({"map_cap": int(os.environ["CAP"])} if os.environ.get("CAP") else {})))), logd, timeout, extra): n for n in names}
            for fut in cf.as_completed(futs):
                r = fut.result()
                print("== %s verdict=%s wall=%ss vt=%s rss=%sMB checks=%s timed_out=%s err=%s" % (
                    r["harness"], r["verdict"], r["wall_s"], r["verification_time_s"], r["peak_rss_mb"],
                    r["n_checks"], r["timed_out"], r["compile_or_cbmc_error"]))
                for c in r["failed"]:
                    print("   FAIL:", c["description"], "@", c["location"][:110])
                for c in r["covers"]:
                    print("   cover:", c["description"], c["status"])
                if r["verdict"] is None or r["compile_or_cbmc_error"]:
                    os.system("grep -n -E '^error|panicked|Out of memory' -A8 %s | head -12" % r["log"])
                sys.stdout.flush()
    finally:
        if not keep:
            overlay.remove_overlay(scratch)
        else:
            print("scratch", scratch)
main()
