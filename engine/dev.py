"""Developer helper: python3 -m engine.dev <harness_file> <name> [timeout] [extra kani args...]"""
import json, os, sys, tempfile
from . import overlay, kani_run

def main():
    hf, name = sys.argv[1], sys.argv[2]
    timeout = int(sys.argv[3]) if len(sys.argv) > 3 else 900
    extra = sys.argv[4:]
    keep = os.environ.get("KEEP")
    crate = hf.split("/")[0]
    crates = ("core",) if crate == "core" else (("core", "cli") if crate == "cli" else ("golden",))
    scratch = os.environ.get("SCRATCH") or overlay.make_overlay("kani", crates=crates)
    print("scratch", scratch)
    logd = os.path.join(scratch, "logs"); os.makedirs(logd, exist_ok=True)
    try:
        r = kani_run.run_harness(scratch, {"file": hf, "name": name, "keep_target": bool(keep)}, logd, timeout, extra)
        r2 = dict(r); r2["covers"] = [(c["description"], c["status"]) for c in r["covers"]]
        r2["failed"] = [(c["description"], c["location"]) for c in r["failed"]]
        print(json.dumps(r2, indent=1))
        if r["verdict"] is None:
            os.system("tail -40 %s" % r["log"])
    finally:
        if not keep:
            overlay.remove_overlay(scratch)
main()
