"""./check <PROPERTY> [--tier quick|thorough] | ./check replay <path> | ./check setup"""
import concurrent.futures as cf
import hashlib
import json
import os
import random
import re
import shutil
import subprocess
import sys
import time

from . import kani_run, overlay, registry, replay

VERIF = overlay.VERIF
KNOWN = os.path.join(VERIF, "known_findings.txt")
REPLAYS_DONE = [0]

STD_ASSUMPTIONS = [
    "Kani 0.68 / CBMC 6.11 / CaDiCaL are sound for the checks they report (bit-precise, unwinding assertions on)",
    "harness modules are attached as child modules to a scratch copy of /repo's working tree; the functions "
    "executed are the ones in /repo, compiled in the dev profile (overflow checks on)",
    "a counterexample is reported only after it reproduced natively against the real crates",
]


class MemBudget:
    """Memory-aware admission: a harness starts only when its expected peak fits the remaining budget."""

    def __init__(self, total):
        import threading
        self.total = total
        self.free = total
        self.cv = threading.Condition()

    def acquire(self, n):
        n = min(n, self.total)
        with self.cv:
            while self.free < n:
                self.cv.wait()
            self.free -= n

    def release(self, n):
        n = min(n, self.total)
        with self.cv:
            self.free += n
            self.cv.notify_all()


def load_known():
    """finding lines: finding: property=<id> harness=<name> check="<substring>" <what>"""
    out = []
    if not os.path.exists(KNOWN):
        return out
    for line in open(KNOWN):
        line = line.strip()
        if not line.startswith("finding:"):
            continue
        m = re.match(r'finding:\s+property=(\S+)\s+harness=(\S+)\s+check="([^"]*)"\s*(.*)', line)
        if m:
            out.append({"property": m.group(1), "harness": m.group(2), "check": m.group(3), "what": m.group(4)})
    return out


def classify_failed(c):
    d = c["description"].lower()
    if "unwinding assertion" in d:
        return "unwinding"
    if "unsupported" in d or "not currently supported" in d or "unimplemented" in d:
        return "unsupported"
    return "assertion"


def in_okane_or_harness(loc):
    return not (loc.startswith("/root/.rustup") or "/rustlib/" in loc or "/.cargo/registry" in loc
                or "/kani-" in loc or "library/" in loc.split(" ")[0])


def run_property(pid, tier, seed):
    t_start = time.time()
    spec = registry.PROPERTIES.get(pid)
    if spec is None:
        print("INCONCLUSIVE property=%s reason=not-registered" % pid)
        return 2
    hs = [h for h in spec["harnesses"] if tier == "thorough" or h["tier"] == "quick"]
    rnd = random.Random(seed)
    rnd.shuffle(hs)
    # longest first so the wall time is bounded by the slowest harness
    hs.sort(key=lambda h: -h.get("expect_s", 60))
    crates = sorted({h["file"].split("/")[0] for h in hs})
    need = set(crates)
    if "cli" in need:
        need.add("core")
    known = [k for k in load_known() if k["property"] == pid]
    inconclusive = []
    violations = []
    known_hits = []
    results = []
    scratch = None
    try:
        try:
            scratch = overlay.make_overlay("kani", crates=tuple(sorted(need)))
        except overlay.OverlayError as e:
            print("INCONCLUSIVE property=%s reason=overlay: %s" % (pid, e))
            write_evidence(pid, tier, seed, spec, [], [], [], ["overlay: %s" % e], time.time() - t_start)
            return 2
        logd = os.path.join(VERIF, "logs", pid + ("-" + os.path.basename(overlay.REPO) if overlay.REPO != "/repo" else ""))
        shutil.rmtree(logd, ignore_errors=True)
        os.makedirs(logd, exist_ok=True)
        workers = int(os.environ.get("VERIF_JOBS", "6"))
        budget = MemBudget(int(os.environ.get("VERIF_TOTAL_MEM_GB", "54")))

        def job(h):
            need = h.get("mem_gb", 8)
            budget.acquire(need)
            try:
                r = kani_run.run_harness(scratch, h, logd, h["timeout"])
            finally:
                budget.release(need)
            apply_expected_failures(h, r)
            return r

        with cf.ThreadPoolExecutor(max_workers=workers) as ex:
            futs = {ex.submit(job, h): h for h in hs}
            for fut in cf.as_completed(futs):
                h = futs[fut]
                try:
                    r = fut.result()
                except Exception as e:  # engine error
                    r = {"harness": h["name"], "verdict": None, "failed": [], "covers": [], "engine_error": str(e),
                         "wall_s": 0, "n_checks": 0, "stubs": [], "timed_out": False, "peak_rss_mb": 0}
                r["spec"] = h
                results.append(r)
                line = summarise(pid, r)
                print(line, flush=True)
        # triage
        for r in results:
            h = r["spec"]
            covers_bad = [c for c in r["covers"] if c["status"] != "SATISFIED"]
            if r.get("engine_error") or r["timed_out"] or r["verdict"] is None or r.get("compile_or_cbmc_error"):
                why = "timeout" if r["timed_out"] else ("engine/compile/solver error (see %s)" % r.get("log"))
                inconclusive.append("%s: %s" % (h["name"], why))
                continue
            if h.get("expected_failures") and not r.get("expected_failures_seen") and r["verdict"] == "SUCCESSFUL":
                inconclusive.append("%s: the failure this harness must provoke was not reached" % h["name"])
                continue
            if r["verdict"] == "SUCCESSFUL":
                if covers_bad:
                    inconclusive.append("%s: vacuity witness not satisfied: %s"
                                        % (h["name"], ", ".join(c["description"] for c in covers_bad)))
                continue
            # FAILED: look at each failed check
            fails = r["failed"]
            kinds = {classify_failed(c) for c in fails}
            if not fails:
                inconclusive.append("%s: FAILED without failed checks (see log)" % h["name"])
                continue
            if kinds == {"unsupported"}:
                inconclusive.append("%s: unsupported construct reachable" % h["name"])
                continue
            if h.get("should_fail"):
                continue
            v, k, inc = triage_failure(pid, h, r, scratch, known)
            violations += v
            known_hits += k
            inconclusive += inc
    finally:
        overlay.remove_overlay(scratch)
    wall = time.time() - t_start
    for k in known_hits:
        print("KNOWN-FINDING: property=%s %s" % (pid, k))
    write_evidence(pid, tier, seed, spec, results, violations, known_hits, inconclusive, wall)
    if violations:
        for v in violations:
            print("VIOLATION property=%s replay=%s" % (pid, v["replay"]))
        return 1
    if inconclusive:
        for i in inconclusive:
            print("INCONCLUSIVE property=%s reason=%s" % (pid, i))
        return 2
    print("OK property=%s tier=%s harnesses=%d wall=%.0fs" % (pid, tier, len(results), wall))
    return 0


def apply_expected_failures(h, r):
    """Failures a harness is *meant* to provoke (e.g. the panic of Golden::assert on differing content):
    matched by description and location, removed from the failed set, but required to be present."""
    exp = h.get("expected_failures") or []
    if not exp or r.get("verdict") != "FAILED":
        return

    def is_exp(c):
        return any(e["desc"] in c["description"] and e["loc"] in c["location"] for e in exp)
    hit = [c for c in r["failed"] if is_exp(c)]
    rest = [c for c in r["failed"] if not is_exp(c)]
    r["expected_failures_seen"] = [c["description"] + " @ " + c["location"] for c in hit]
    r["failed"] = rest
    if hit and not rest and r["undetermined"] == 0:
        r["verdict"] = "SUCCESSFUL"


def summarise(pid, r):
    h = r["spec"]
    st = "discharged" if r.get("verdict") == "SUCCESSFUL" else ("FAILED" if r.get("verdict") == "FAILED" else "no-verdict")
    if r.get("timed_out"):
        st = "timeout"
    ncov = sum(1 for c in r.get("covers", []) if c["status"] == "SATISFIED")
    return "%s/%s %s %ss rss=%sMB checks=%s covers=%d/%d" % (
        pid, h["name"], st, r.get("wall_s"), r.get("peak_rss_mb"), r.get("n_checks"), ncov, len(r.get("covers", [])))


def triage_failure(pid, h, r, scratch, known):
    """Counterexample extraction (concrete playback) + native replay. Returns (violations, known_hits, inconclusive)."""
    violations, known_hits, inconclusive = [], [], []
    fails = [c for c in r["failed"] if classify_failed(c) != "unsupported"]
    logd = os.path.dirname(r["log"])
    # concrete playback keeps more of the formula (measured: 6 GB -> > 12 GB on a csv harness): give the
    # re-run a larger memory cap than the verification run
    # (the Kani driver itself parses CBMC's whole JSON trace and died of "memory allocation failed" under 28 GB of
    # address space on a process_posting harness)
    hp = dict(h, mem_gb=max(48, 2 * h.get("mem_gb", 8)))
    pb = kani_run.run_harness(scratch, hp, logd, h["timeout"] * 2,
                              extra_args=["-Z", "concrete-playback", "--concrete-playback=print"], tag="-playback")
    with open(pb["log"], errors="replace") as f:
        pbout = f.read()
    tests = [t for t in kani_run.parse_playback(pbout) if t["kind"] != "cover"]
    if not tests and any(classify_failed(c) == "unwinding" for c in fails):
        # Kani prints no playback for a failed unwinding assertion. Fall back to the witness bank:
        # concrete inputs of every vacuity cover of this harness, harvested on a tree where the covers
        # were satisfied (./check witnesses). A witness that hangs or panics natively is a real failure.
        tests = load_witnesses(h["name"])
    if not tests:
        inconclusive.append("%s: failed checks [%s] but no counterexample could be extracted"
                            % (h["name"], "; ".join(c["description"] for c in fails)))
        return violations, known_hits, inconclusive
    # one replay per distinct input vector
    seen = set()
    reproduced_msgs = []
    any_repro = False
    replay_docs = []
    for t in tests:
        vec = t["vals"]
        key = json.dumps(vec)
        if key in seen:
            continue
        seen.add(key)
        sha = hashlib.sha1(key.encode()).hexdigest()[:10]
        path = os.path.join(VERIF, "replays", pid, "%s-%s.json" % (h["name"], sha))
        doc = replay.write_replay_file(path, pid, h, vec, fails,
                                       {"solver_failed_check": {"kind": t["kind"], "description": t["description"]}})
        res = replay.native_replay(doc)
        REPLAYS_DONE[0] += 1
        doc["native_replay"] = res
        with open(path, "w") as f:
            json.dump(doc, f, indent=1)
        replay_docs.append((path, doc))
        if any(x.get("reproduced") for x in res.values()):
            any_repro = True
    if not any_repro:
        inconclusive.append("%s: counterexample did not reproduce natively (encoding or stub wrong?) replay=%s"
                            % (h["name"], replay_docs[0][0]))
        return violations, known_hits, inconclusive
    # attribute: each failed check description is matched against the known findings
    for path, doc in replay_docs:
        res = doc["native_replay"]
        if not any(x.get("reproduced") for x in res.values()):
            continue
        msg = " ".join(x.get("message", "") for x in res.values())
        matched = None
        for k in known:
            # the native panic message must carry the known check text
            if k["harness"] == h["name"] and k["check"] and k["check"] in msg:
                matched = k
                break
        if matched:
            known_hits.append("harness=%s check=\"%s\" %s" % (h["name"], matched["check"], matched["what"]))
        else:
            violations.append({"harness": h["name"], "replay": path, "message": msg[:600]})
    # de-duplicate known hits
    known_hits = sorted(set(known_hits))
    return violations, known_hits, inconclusive


def witness_path(name):
    return os.path.join(VERIF, "witnesses", name + ".json")


def load_witnesses(name):
    p = witness_path(name)
    if not os.path.exists(p):
        return []
    return [{"kind": "witness", "description": w["cover"], "vals": w["vals"]} for w in json.load(open(p))]


def harvest_witnesses(pid):
    """./check witnesses <PROP>: run every harness of the property with concrete playback and store the
    inputs Kani prints for each satisfied cover. Maintenance command; the files are committed."""
    spec = registry.PROPERTIES[pid]
    crates = {h["file"].split("/")[0] for h in spec["harnesses"]}
    if "cli" in crates:
        crates.add("core")
    scratch = overlay.make_overlay("kani", crates=tuple(sorted(crates)))
    logd = os.path.join(VERIF, "logs", "witness")
    os.makedirs(logd, exist_ok=True)
    os.makedirs(os.path.join(VERIF, "witnesses"), exist_ok=True)
    try:
        with cf.ThreadPoolExecutor(max_workers=5) as ex:
            futs = {ex.submit(kani_run.run_harness, scratch, h, logd, h["timeout"] * 3,
                              ["-Z", "concrete-playback", "--concrete-playback=print"], "-w"): h
                    for h in spec["harnesses"] if not os.path.exists(witness_path(h["name"])) or os.environ.get("FORCE")}
            for fut in cf.as_completed(futs):
                h = futs[fut]
                r = fut.result()
                with open(r["log"], errors="replace") as f:
                    tests = kani_run.parse_playback(f.read())
                ws = [{"cover": t["description"], "vals": t["vals"]} for t in tests if t["kind"] == "cover"]
                if ws:
                    with open(witness_path(h["name"]), "w") as f:
                        json.dump(ws, f, indent=1)
                print("witnesses %s: %d (%s)" % (h["name"], len(ws), r.get("verdict")))
    finally:
        overlay.remove_overlay(scratch)
    return 0


def write_evidence(pid, tier, seed, spec, results, violations, known_hits, inconclusive, wall):
    if os.environ.get("VERIF_NO_EVIDENCE"):
        return  # maintenance runs against other trees (seeded changes) must not touch the evidence of /repo
    os.makedirs(os.path.join(VERIF, "evidence"), exist_ok=True)
    n_checks = sum(r.get("n_checks", 0) for r in results)
    discharged = [r for r in results if r.get("verdict") == "SUCCESSFUL" and not r.get("timed_out")]
    nontrivial = 0
    for r in discharged:
        # reachable solver obligations in okane/harness code + satisfied covers
        nontrivial += r.get("n_reachable_user", 0)
    samples = []
    models = set()
    for r in results:
        h = r["spec"]
        for m in h.get("models", []):
            models.add(m)
        samples.append({
            "harness": h["name"],
            "functions_encoded": h.get("functions"),
            "bound": h.get("bound"),
            "oracle": h.get("oracle"),
            "verdict": r.get("verdict"),
            "timed_out": r.get("timed_out"),
            "solver_checks": r.get("n_checks"),
            "failed_checks": [c["description"] for c in r.get("failed", [])],
            "covers": {c["description"]: c["status"] for c in r.get("covers", [])},
            "stubs_applied": r.get("stubs"),
            "vccs_generated_remaining": r.get("vccs"),
            "symex_s": r.get("symex_s"),
            "symex_steps": r.get("symex_steps"),
            "expected_failures_seen": r.get("expected_failures_seen"),
            "solver_s": r.get("solver_s"),
            "verification_time_s": r.get("verification_time_s"),
            "wall_s": r.get("wall_s"),
            "peak_rss_mb": r.get("peak_rss_mb"),
        })
    ev = {
        "property_id": pid,
        "tier": tier,
        "seed": seed,
        "level": "model_checking",
        "coverage": {
            "evaluations": max(n_checks, 1) if results else 0,
            "distinct_nontrivial": sum(count_nontrivial(r) for r in discharged),
            "rule": "evaluations = solver obligations (CBMC checks incl. unwinding assertions and cover properties) "
                    "decided over all harnesses of this run; distinct_nontrivial = those obligations, in harnesses "
                    "with a conclusive SUCCESSFUL verdict, that are reachable (status SUCCESS, not UNREACHABLE) plus "
                    "SATISFIED vacuity covers; each is a distinct (harness, check id) pair",
            "states": max(1, sum(r.get("symex_steps") or 0 for r in results)),
            "transitions": max(1, sum((r.get("vccs") or [0, 0])[0] for r in results)),
            "traces_validated_against_impl": sum(len(v.get("native", {})) for v in violations) + REPLAYS_DONE[0],
            "states_transitions_meaning": "states = steps of the unwound program CBMC executed symbolically (SSA program-expression "
                                          "size it reports), summed over harnesses; transitions = verification conditions generated from "
                                          "them before simplification; traces_validated_against_impl = counterexamples / witness inputs "
                                          "replayed natively against the real crates in this run",
            "obligations": len(results),
            "discharged": len(discharged),
            "samples": samples,
            "engine": "Kani 0.68.0 / CBMC 6.11.0 / CaDiCaL, encoding regenerated from /repo's working tree on this run",
            "known_findings_matched": known_hits,
            "violations": violations,
            "inconclusive": inconclusive,
            "exhaustive": False,
        },
        "assumptions": STD_ASSUMPTIONS + sorted(models),
        "wall_s": round(wall, 1),
        "violations": len(violations),
    }
    with open(os.path.join(VERIF, "evidence", pid + ".json"), "w") as f:
        json.dump(ev, f, indent=1)


def count_nontrivial(r):
    return r.get("n_success_reachable", 0) + sum(1 for c in r.get("covers", []) if c["status"] == "SATISFIED")


def cmd_replay(path):
    doc = json.load(open(path))
    res = replay.native_replay(doc)
    print(json.dumps(res, indent=1))
    if any(x.get("reproduced") for x in res.values()):
        print("VIOLATION property=%s replay=%s" % (doc["property"], path))
        return 1
    return 0


def main(argv):
    if len(argv) >= 2 and argv[1] == "replay":
        return cmd_replay(argv[2])
    if len(argv) >= 3 and argv[1] == "witnesses":
        return harvest_witnesses(argv[2])
    if len(argv) >= 2 and argv[1] == "setup":
        from . import setup
        return setup.main()
    pid = argv[1]
    tier = os.environ.get("VERIF_TIER", "quick")
    if "--tier" in argv:
        tier = argv[argv.index("--tier") + 1]
    seed = int(os.environ.get("VERIF_SEED", "0"))
    return run_property(pid, tier, seed)
