"""./check setup — offline sanity of the tool chain. Builds nothing persistent that checks depend on
(every check rebuilds from /repo's working tree)."""
import os
import shutil
import subprocess
import sys

from . import overlay


def main():
    ok = True
    for tool in (["cargo", "kani", "--version"], ["cbmc", "--version"], ["rsync", "--version"]):
        try:
            r = subprocess.run(tool, capture_output=True, text=True, timeout=120)
            line = (r.stdout or r.stderr).splitlines()[0] if (r.stdout or r.stderr) else ""
            print("setup: %s -> %s" % (" ".join(tool), line))
            if r.returncode != 0:
                ok = False
        except Exception as e:  # noqa
            print("setup: %s failed: %s" % (" ".join(tool), e))
            ok = False
    for d in ("evidence", "replays", "logs"):
        os.makedirs(os.path.join(overlay.VERIF, d), exist_ok=True)
    if not os.path.isdir(overlay.REPO):
        print("setup: %s missing" % overlay.REPO)
        ok = False
    return 0 if ok else 1
