"""Property -> harness registry. One entry per Kani proof harness.

Fields: file (under /verif/harness), name, tier ('quick' harnesses also run in 'thorough'),
timeout (s, cap; on the unchanged tree every harness finishes with >= 2x margin),
functions (okane functions symbolically executed), bound (shape + value bounds + unwind),
models (environment models applied), oracle (what is asserted).
"""

FMT = "alloc::fmt::format -> empty String (messages not inspected)"
DEC = "rust_decimal + - * / checked_* round_dp cmp -> verif_dec (exact on mantissa<2^32, scale<=8)"
MAP = "std HashMap -> verif_map (capacity 4)"
MAPND = "std HashMap -> verif_map (capacity 4, iteration order a solver variable)"
BUMP = "bumpalo::Bump::alloc_layout -> global allocator"
HEAP = "std BinaryHeap -> verif_heap (bag of capacity 2; pop returns ANY greatest element, ties a solver variable)"
SORT = ("core::slice::sort::unstable::sort -> identity (every map of the harness is built in name order, so the slot order the map "
        "model iterates in is the sorted order; the oracle does not depend on the visiting order)")

PROPERTIES = {}


def prop(pid, **kw):
    kw.setdefault("harnesses", [])
    PROPERTIES[pid] = kw
    return kw


def H(pid, **kw):
    kw.setdefault("tier", "quick")
    kw.setdefault("timeout", 900)
    kw.setdefault("models", [])
    PROPERTIES[pid]["harnesses"].append(kw)


# --------------------------------------------------------------------------- C07
prop("C07", title="Numeric literals mean exactly what is written",
     level_text="Bounded model checking of the real PrettyDecimal::from_str: for EVERY ASCII byte string of length <= 6 "
                "(quick; <= 10 thorough) the solver decides accepted-set and value against a reference recogniser written "
                "from the statement, plus the 39..41-digit overflow step; and the printing side for grouped values: every m / 10^scale "
                "(16-bit mantissa, 0..=4 decimal places) with the comma-grouped tag prints the reference text. Strings longer than the bound, "
                "the winnow token extent (primitive::pretty_decimal), Decimal's own Display (plain format) and larger mantissas are outside.",
     level_note="Trusted: Kani/CBMC; alloc::fmt::format stubbed to an empty string (error messages not inspected); input "
                "restricted to ASCII bytes viewed through from_utf8_unchecked (UTF-8 validation is not the subject); "
                "real rust_decimal try_from_i128_with_scale is executed, not modelled.")
H("C07", file="core/pretty_decimal.rs", name="c07_literal_6", tier="quick", timeout=900,
  functions=["PrettyDecimal::from_str", "try_find_char", "Decimal::try_from_i128_with_scale (real)"],
  bound="every ASCII byte string of length 0..=6 (128^6 strings, one query); unwind 8",
  models=[FMT],
  oracle="reference recogniser written from the statement: malformed => Err; well-formed => Ok with "
         "mantissa, scale, sign and grouping tag equal to what is written; `1.`/`.5` free but exact if accepted")
H("C07", file="core/pretty_decimal.rs", name="c07_overflow_39_41", tier="quick", timeout=900,
  functions=["PrettyDecimal::from_str"],
  bound="38 concrete '9' followed by exactly 1, 2 and 3 symbolic characters from [0-9.] (39..41 digit literals); unwind 50",
  models=[FMT],
  oracle="a literal beyond the 96-bit range is rejected: no Ok, no arithmetic overflow (dev) and no wrap (release)")
H("C07", file="core/pretty_decimal.rs", name="c07_display_grouped", tier="quick", timeout=1500, expect_s=210, env={"VERIF_ALLOC_BLOCK": 64},
  functions=["<PrettyDecimal as Display>::fmt (Comma3Dot arm)", "i128 Display (real)", "core::fmt::write (real)"],
  bound="every value m / 10^scale with a 16-bit mantissa, either sign, 0..=4 decimal places, carrying the grouped format tag; unwind 8",
  models=[FMT, "global allocator -> fixed 64-byte blocks (verif_alloc): the digit string's length is symbolic"],
  oracle="prints without panicking, exactly the reference text: digits padded to one integral digit, groups of three, '.' + scale digits "
         "(so `0,000.01` prints 0.01 instead of overflowing)")
H("C07", file="core/pretty_decimal.rs", name="c07_literal_10", tier="thorough", timeout=2700,
  functions=["PrettyDecimal::from_str", "try_find_char"],
  bound="every ASCII byte string of length 0..=10; unwind 12",
  models=[FMT],
  oracle="same as c07_literal_6")

# --------------------------------------------------------------------------- C06
prop("C06", title="Every input yields output or a diagnostic: no crash, no hang",
     level_text="Bounded model checking of the named kernels where totality is at risk: the error-span search of "
                "ParseError::new for every ASCII text <= 5 bytes x every entry start x every error offset (incl. end of "
                "input) and around a 3-byte character; the numeric-literal scanner on every ASCII string <= 6 bytes and the "
                "39..41-digit overflow step; the division sites of book-keeping (check_balance residuals, price insertion). "
                "Termination is decided by unwinding assertions. Totality of the whole winnow parser on arbitrary text, "
                "include cycles, main()'s error mapping and wall-clock promptness are outside (DESIGN C06).",
     level_note="Trusted: Kani/CBMC; fmt::format stub; ASCII restriction (plus one concrete multi-byte character); "
                "verif_map / verif_dec / bump models in the book-keeping harnesses; only the listed kernels are claimed.")
H("C06", file="core/parse_error.rs", name="c06_parse_error_ascii_5", timeout=600,
  functions=["ParseError::new", "compute_line_number", "LocatingSlice::{checkpoint,reset,offset_from}"],
  bound="every ASCII text of 0..=5 bytes, entry start 0..=len, error offset 0..=len-start; unwind 8",
  models=[FMT],
  oracle="returns (unwinding assertion on the boundary search); span starts at the error offset, is not inverted, "
         "ends inside the text; diagnostic text = text from entry start; line_start = 1 + newlines before entry")
H("C06", file="core/parse_error.rs", name="c06_parse_error_multibyte", timeout=600,
  functions=["ParseError::new"],
  bound="texts [a]あ[b] with a,b symbolic ASCII or absent; start/offset at every character boundary; unwind 9",
  models=[FMT], oracle="same as c06_parse_error_ascii_5")
H("C06", file="core/pretty_decimal.rs", name="c07_literal_6", timeout=900,
  functions=["PrettyDecimal::from_str", "try_find_char"],
  bound="every ASCII byte string of length 0..=6; unwind 8", models=[FMT],
  oracle="no panic, no overflow, no out-of-range slice on any path (Kani's built-in checks) in addition to C07's oracle")
H("C06", file="core/pretty_decimal.rs", name="c07_display_grouped", timeout=1500, expect_s=210, env={"VERIF_ALLOC_BLOCK": 64},
  functions=["<PrettyDecimal as Display>::fmt (Comma3Dot arm)"],
  bound="16-bit mantissa, either sign, 0..=4 decimal places, grouped format tag; unwind 8",
  models=[FMT, "global allocator -> fixed 64-byte blocks (verif_alloc)"],
  oracle="formatting never panics (index arithmetic mantissa.len() - scale, split_at)")
H("C06", file="core/pretty_decimal.rs", name="c07_overflow_39_41", timeout=900,
  functions=["PrettyDecimal::from_str"],
  bound="38 nines + 1..3 symbolic characters from [0-9.]; unwind 50", models=[FMT],
  oracle="rejected without arithmetic overflow")

H("C06", file="core/book_keeping.rs", name="c01_residual_2", timeout=1500, expect_s=250,
  functions=["check_balance (division sites a2/a1, a1/a2)", "Amount::maybe_pair"],
  bound="residual over 2 commodities, 16-bit mantissas, both signs, zeros, symbolic map order; unwind 6",
  models=[FMT, DEC, MAPND, BUMP, "PriceRepositoryBuilder::insert_price -> asserting recorder"],
  oracle="no division by zero / panic on any residual (Kani's built-in checks + verif_dec's zero-divisor panic), in addition to C01's oracle")

# --------------------------------------------------------------------------- C14
prop("C14", title="Diagnostics name the right file and line",
     level_text="Bounded model checking of the offset/line arithmetic behind every diagnostic: compute_line_number on every "
                "byte string <= 8 bytes and position; ParseError::new's line_start/error_span for every ASCII text <= 5 bytes; "
                "ParsedContext::compute_line_start / as_str / span().resolve (clip) for every entry and item span in every ASCII text "
                "<= 8 bytes (CR/LF included) - the data ErrorContext::new copies. The annotate-snippets rendering, ErrorContext::new "
                "itself (a three-field copy) and which path report::process hands over for an included file (Loader I/O) are outside.",
     level_note="Trusted: Kani/CBMC; fmt::format stub; texts restricted to the stated lengths.")
H("C14", file="core/parse_error.rs", name="c14_line_number_8", timeout=300,
  functions=["compute_line_number"],
  bound="every byte string of 0..=8 bytes (any byte values) and every position 0..=len; unwind 10",
  oracle="result == 1 + number of 0x0A bytes strictly before the position")
H("C14", file="core/parse_error.rs", name="c06_parse_error_ascii_5", timeout=600,
  functions=["ParseError::new", "compute_line_number"],
  bound="every ASCII text of 0..=5 bytes, entry start, error offset; unwind 8", models=[FMT],
  oracle="line_start = line of the entry start in the original text whatever precedes it; span starts where parsing stopped")

REC0 = {"Evaluable>::eval_visit": 0}
RECNOTE = "recursion of Evaluable::eval_visit bounded at 0 re-entries (CBMC --unwindset, recursion unwinding assertions on): syntax trees hold literal amounts only"

# --------------------------------------------------------------------------- C01
prop("C01", title="Accepted transactions balance; unbalanced ones are rejected, not crashed on",
     level_text="Bounded model checking of the acceptance predicate, compositionally: (1) check_balance on EVERY residual over 1, 2 and 3 "
                "commodities (16-bit mantissas, both signs, zero entries, declared precision with half-unit rounding boundaries, both map "
                "iteration orders) against the statement's predicate, incl. the price it records; (2) every posting shape "
                "`v X [@ r | @@ r | {r} | {{r}} | {r} @ r2]` through ComputedPosting::compute_from_syntax on real syntax trees: "
                "balancing value = lot else cost else amount, the three rejection rules. The fold of posting values into the residual "
                "inside add_transaction (Amount += PostingAmount) is exercised by the thorough-tier whole-transaction harnesses. "
                "4+ commodities, values beyond 16/32 bits, parenthesised expressions (C08) and the parser are outside.",
     level_note="Trusted: Kani/CBMC; models verif_map (capacity 2-4), verif_dec (exact on mantissa < 2^32, scale <= 8), bump allocator "
                "and fmt::format stubs; insert_price replaced by an asserting recorder in the residual harnesses (insert_price itself: C09); "
                "static interned names in the residual harnesses.")
for k, exp in ((2, 220), (3, 220), (1, 140)):
    H("C01", file="core/book_keeping.rs", name="c01_residual_%d" % k, timeout=1500, expect_s=exp,
      functions=["check_balance", "Amount::round", "Amount::is_zero", "Amount::maybe_pair", "Amount::from_values (+=)"],
      bound="residual over %d commodit%s: X scale 0, Y scale 2 with optional declared precision 1, Z scale 0; 16-bit mantissas, "
            "both signs, zeros; symbolic map iteration order; unwind 6" % (k, "y" if k == 1 else "ies"),
      models=[FMT, DEC, MAPND, BUMP, "PriceRepositoryBuilder::insert_price -> asserting recorder (both sides non-zero, positive, different commodities)"],
      oracle="Ok => all rounded totals zero, or exactly two non-zero totals of opposite sign (and one positive price recorded); "
             "all zero => Ok; Err is UnbalancedPostings; no panic")
for nm, exp in (("plain", 60), ("cost_rate", 140), ("cost_total", 140), ("lot_rate", 140), ("lot_total", 140),
                ("lot_and_cost", 210), ("same_commodity", 140)):
    H("C01", file="core/book_keeping.rs", name="c01_valuation_" + nm, timeout=1500, expect_s=exp, recursion=REC0, map_cap=3,
      tier="quick" if nm in ("plain", "cost_total", "lot_and_cost", "same_commodity") else "thorough",
      functions=["ComputedPosting::compute_from_syntax", "Exchange::try_from_syntax", "Exchange::exchange",
                 "ComputedPosting::calculate_balance_amount", "ComputedPosting::calculate_converted_amount",
                 "Evaluable::eval_mut", "TryFrom<Evaluated> for PostingAmount/SingleAmount"],
      bound="one posting `v X` (or bare 0) with annotation %s; v 16-bit scale 0, rates 16-bit scale 2 / 0, all signs and zeros; unwind 6" % nm,
      models=[FMT, DEC, MAP, BUMP, RECNOTE],
      oracle="balancing value = lot price else cost else own amount (rate x quantity; total with the quantity's sign); converted amount = "
             "cost else lot; zero rate / rate in own commodity / rate on commodity-less zero => their dedicated errors; nothing else rejected")

# --------------------------------------------------------------------------- C02
prop("C02", title="Balance assertions are enforced exactly and in file order",
     level_text="Bounded model checking of one posting step from an ARBITRARY valid running balance of the account over two commodities "
                "(inductive step, so any history). Quick tier: (1) the two mechanisms process_posting composes (Balance::add_posting_amount then "
                "Amount::assert_balance) for `= e X`, `= e Y`, bare `= 0` from a pre-balance with symbolic zero-ness; (2) the REAL process_posting "
                "on a syntax-tree posting `A  v X = e` from pre-states of concrete shape with symbolic non-zero values (account never posted "
                "to; holding X and Y; holding X only), amounts at scale 2 with an optional coarser declared precision (so 'equal after "
                "rounding' differs from 'equal'): the verdict, that the error carries this posting's account and assertion spans, the "
                "stored amount and the post-state. Thorough tier: the same through process_posting from the arbitrary pre-balance. "
                "Rendered computed/diff text, several assertions inside one transaction through add_transaction, aliases/includes are outside.",
     level_note="Trusted: Kani/CBMC; verif_map (capacity 2), verif_dec, bump, fmt stubs; the pre-balance is built with the Balance API from "
                "two symbolic 16-bit values (the representation invariant 'no stored zero' is itself asserted after every step).")
for nm, exp in (("same_commodity", 135), ("other_commodity", 135), ("bare_zero", 260)):
    H("C02", file="core/book_keeping.rs", name="c02_kernel_" + nm, timeout=1500, expect_s=exp, map_cap=2,
      functions=["Balance::add_posting_amount", "Amount::assert_balance", "Amount::remove_zero_entries", "Amount::get_part"],
      bound="pre-balance a X + b Y (16-bit, signed, zero = absent), posting v X, asserted e at scale 2; symbolic map order; unwind 6",
      models=[DEC, MAPND],
      oracle="assert_balance returns absolute zero <=> (pre + v)[commodity] == e (bare 0: everything zero); diff = asserted - computed; "
             "running balance = pre + v with no zero entries")
for nm, shape, kind, exp in (("c02_assert_fresh_account", "account A never posted to", "= e X", 160),
                             ("c02_step_two_same", "A holds a X and b Y (both non-zero)", "= e X", 400),
                             ("c02_step_two_other", "A holds a X and b Y (both non-zero)", "= e Y", 400),
                             ("c02_step_one_bare_zero", "A holds a X (non-zero)", "bare = 0", 400)):
    H("C02", file="core/book_keeping.rs", name=nm, timeout=2400, expect_s=exp, recursion=REC0, map_cap=2, mem_gb=14,
      functions=["process_posting", "ComputedPosting::compute_from_syntax", "Balance::add_posting_amount", "Amount::assert_balance", "Amount::round (must not be applied)"],
      bound="pre-state: %s; posting `A  v X %s` as a tracked syntax tree with spans; v, e 16-bit at scale 2; precision 1 declared for X or not; unwind 6" % (shape, kind),
      models=[FMT, DEC, MAP, BUMP, RECNOTE],
      oracle="Ok <=> assertion exactly true after applying this posting; Err = BalanceAssertionFailure with this posting's spans; stored amount = v X; "
             "post-balance = pre + v")
for nm in ("same_commodity", "other_commodity", "bare_zero"):
    H("C02", file="core/book_keeping.rs", name="c02_assert_" + nm, tier="thorough", timeout=3000, expect_s=780, recursion=REC0, map_cap=2,
      mem_gb=24,
      functions=["process_posting", "ComputedPosting::compute_from_syntax", "Balance::add_posting_amount", "Amount::assert_balance"],
      bound="pre-balance a X + b Y, posting `A  v X = e` as a tracked syntax tree with spans; 16-bit values; unwind 6",
      models=[FMT, DEC, MAP, BUMP, RECNOTE],
      oracle="Ok <=> assertion true after applying this posting; Err = BalanceAssertionFailure with this posting's spans; stored amount = v X; "
             "post-balance = pre + v")

# --------------------------------------------------------------------------- C03
prop("C03", title="Omitted and assigned amounts are inferred exactly",
     level_text="Bounded model checking of the assignment rule through the real process_posting on syntax-tree postings `A  = e X` and "
                "`A  = 0` from an ARBITRARY pre-balance over two commodities: inferred amount = X - current balance (bare 0: minus the whole "
                "single-commodity balance), the account is left at X / empty, other commodities and other accounts untouched, `= 0` on a "
                "multi-commodity account rejected. The omitted-amount rule (deduced = -(sum of balancing values), second unfilled posting "
                "rejected) is checked through add_transaction in the thorough tier.",
     level_note="Trusted: Kani/CBMC; verif_map (capacity 2), verif_dec, bump, fmt stubs; literal-only syntax trees.")
for nm, exp in (("commodity", 160), ("bare_zero", 160)):
    H("C03", file="core/book_keeping.rs", name="c03_assign_" + nm, timeout=1500, expect_s=exp, recursion=REC0, map_cap=2,
      functions=["process_posting", "Balance::set_partial", "Amount::set_partial", "PostingAmount::check_sub"],
      bound="pre-balance a X + b Y (16-bit signed, zero = absent); assigned e X (16-bit) / bare 0; unwind 6",
      models=[FMT, DEC, MAP, BUMP, RECNOTE],
      oracle="amount == e - pre[X], post[X] == e, Y untouched; `= 0`: amount == -pre and account empty, Err(BalanceFailure) iff two commodities held")

# --------------------------------------------------------------------------- C04
prop("C04", title="Reported balances equal the sum of the register, over any date range",
     level_text="Bounded model checking of the two mechanisms the balance report is made of: DateRange::contains is exactly [start, end) "
                "for EVERY representable date and optional bounds, adjacent ranges partition their union (so range reports add up); and the "
                "fold step bal.add_amount(account, amount) of the re-fold is per-commodity addition from an arbitrary account balance over two "
                "commodities with no zero entry kept; likewise the assignment step Balance::set_partial that writes the incrementally kept (raw) balance. The whole Ledger::balance on a two-transaction ledger with symbolic dates/range is a "
                "thorough-tier harness. RegisterCmd's running total (inline in a function doing file I/O and printing) and rounding to "
                "declared precision are outside.",
     level_note="Trusted: Kani/CBMC; verif_map (capacity 2), verif_dec; static interned names; price conversion cut out of the balance harness "
                "(no conversion requested).")
H("C04", file="core/query.rs", name="c04_date_range_contains", timeout=600, expect_s=25,
  functions=["DateRange::contains", "DateRange::is_bypass", "chrono NaiveDate comparison (real)"],
  bound="start, end, date, split point: every NaiveDate (year -262143..262142, ordinal 1..366); each bound optional",
  oracle="contains == (start <= d) && (d < end); [a,c) = [a,b) xor [b,c) for a <= b <= c; bypass only without bounds")
H("C04", file="core/query.rs", name="c04_add_amount_kernel", timeout=900, expect_s=80, map_cap=2,
  functions=["Balance::add_amount", "Amount::add_assign", "Amount::remove_zero_entries", "Amount::from_values"],
  bound="pre-balance a X + b Y, added amount v X [+ w Y]; 16-bit signed values; unwind 6", models=[DEC, MAP],
  oracle="result == per-commodity sum; entry present iff the sum is non-zero")
H("C04", file="core/query.rs", name="c04_set_partial_kernel", timeout=900, expect_s=80, map_cap=2,
  functions=["Balance::set_partial", "Amount::set_partial", "TryFrom<&Amount> for PostingAmount"],
  bound="pre-balance a X + b Y, assignment `= e X` (e may be zero) or bare `= 0`; 16-bit signed values; unwind 6", models=[DEC, MAP],
  oracle="returned previous value == a; account left at e X with Y untouched; entry present iff non-zero (the incrementally kept "
         "balance never shows a zero commodity, so it agrees with the re-fold); `= 0` empties a <= 1-commodity account, Err on two")
H("C04", file="core/query.rs", name="c04_balance_range_1", tier="thorough", timeout=3000, expect_s=1500, map_cap=2, mem_gb=30,
  functions=["Ledger::balance (recompute path)", "DateRange::contains", "Balance::add_amount", "Balance::round"],
  bound="ledger T1(day d1): A v1 X; T2(day d2): A v2 X; d1,d2,start,end in an 8 day window, bounds optional; unwind 4",
  models=[DEC, MAP, BUMP, FMT, "price_db::convert_amount cut (no conversion requested)"],
  oracle="balance(A)[X] == sum of v_i with start <= d_i < end; entry present iff non-zero")

# --------------------------------------------------------------------------- C19
prop("C19", title="Formatted postings are laid out in aligned columns",
     level_text="Bounded model checking of the column arithmetic every posting line is built from (get_column at both call sites, Alignment "
                "bookkeeping) for ALL widths below 2^20: at least two spaces after the account, numeric part ends at column 52 whenever "
                "account width + number width + 2 < 48, an assertion-only posting puts `=` where it falls after an amount in that commodity. "
                "The real Display of a posting (unicode-width tables, Decimal formatting) and entry separation through the parser are outside; "
                "the width that feeds the arithmetic is taken as given.",
     level_note="Trusted: Kani/CBMC; the formulas tying get_column's result to the printed column (4-space indent + account + pad + number) are "
                "read from WithContext<Posting>::fmt and restated in the harness.")
H("C19", file="core/display.rs", name="c19_column_arithmetic", timeout=300, expect_s=20,
  functions=["get_column", "Alignment::plus", "Alignment::absolute"],
  bound="account width, alignment offset, trailing width: all values < 2^20 (no unwinding: loop free)",
  oracle="pad >= 2; fits => 4 + aw + pad + al == 52; else pad == 2; assertion-only: 4 + aw + bpad == 54 + trailing when aw + 2 < 50 + trailing")

# --------------------------------------------------------------------------- C20
IOREC = {"drop_glue::<std::io::Error>": 0}
prop("C20", title="The golden-file helper compares faithfully and only writes when told to",
     level_text="Bounded model checking of Golden::new / Golden::assert with the file system and environment replaced by nondeterministic "
                "stubs: for every golden content and every `got` of <= 2 ASCII bytes (CR and LF included), UPDATE_GOLDEN unset / empty / "
                "non-empty: without UPDATE_GOLDEN `assert` returns when got equals the CRLF-normalised content, never returns when it differs, "
                "and nothing is written or changed either way; with it, exactly one write happens and the file afterwards holds exactly `got`. "
                "Outside: the missing-file paths (std::io::Error keeps its kind in pointer tag bits that CBMC cannot decode; spurious "
                "memory-safety reports), longer contents, the real file system.",
     level_note="Trusted: Kani/CBMC; stubs for std::fs::read_to_string, std::fs::write, std::env::var (one-file symbolic file system), "
                "str::replace (naive left-to-right model; std's TwoWaySearcher does not finish), Result::unwrap_or_default (model that "
                "does not drop the VarError and returns an empty String with spare capacity: Kani 0.68 mis-tracks the zero-capacity "
                "constant of String::new()), fmt::format; file assumed present.")
for nm in ("c20_no_update_equal", "c20_update"):
    H("C20", file="golden/lib.rs", name=nm, timeout=900, expect_s=45, recursion=IOREC, env={"VERIF_GOLDEN_N": 2},
      functions=["Golden::new", "Golden::assert", "read_as_utf8", "is_update_golden"],
      bound="content and got: every ASCII string (no NUL) of length 0..=2; UPDATE_GOLDEN in {unset, empty} resp. non-empty; unwind 6",
      models=["std::fs::read_to_string / std::fs::write / std::env::var -> one-file symbolic file system + 3-valued variable",
              "str::replace -> naive model", FMT, "drop_glue::<io::Error> recursion bounded at 0 (assertion on)"],
      oracle="no-update: assert returns for got == normalise(content), zero writes, file unchanged; update: one write, file == got")

# --------------------------------------------------------------------------- C17
prop("C17", title="Rewrite rules and layered configuration resolve as documented",
     level_text="Bounded model checking of the real Extractor::extract / ExtractRule / MatchOrExpr / MatchAndExpr with the regex engine "
                "replaced by a NONDETERMINISTIC matcher (hit / captured payee / captured code are solver variables, optionally depending on "
                "the payee as rewritten so far): for every outcome of 2 rules (3 in thorough) x OR[AND[m,m], AND[m]] the resulting payee, "
                "code, account and pending state equal a reference fold written from the statement. ConfigFragment::merge over three "
                "documents with symbolic presence of every scalar and rule list: later overrides, unset inherits, rule lists concatenated in "
                "order. ConfigSet::select's substring match and sort by path length (str::contains, slice sort, real HashMaps in FormatSpec), "
                "regex case-insensitivity and YAML decoding are outside.",
     level_note="Trusted: Kani/CBMC; NdMatcher stands for regex_matcher + the record (any regex/record pair induces one of its outcomes); "
                "identity of pooled strings compared by pointer.")
H("C17", file="cli/extract.rs", name="c17_rule_fold_2", timeout=1200, expect_s=130,
  functions=["Extractor::extract", "ExtractRule::extract", "MatchOrExpr::extract", "MatchAndExpr::extract", "Fragment += / + Matched"],
  bound="2 rules x OR[AND[m,m], AND[m]]; per matcher: hit, payee capture in {none,p0,p1}, code capture in {none,c0,c1}; per rule: pending, "
        "account in {none,A0,A1}; unwind 5",
  oracle="payee/code/account/cleared == reference fold from the statement")
H("C17", file="cli/extract.rs", name="c17_rule_fold_payee_dependent_2", timeout=1200, expect_s=130,
  functions=["Extractor::extract", "MatchAndExpr::extract (each matcher sees the payee rewritten so far)"],
  bound="as c17_rule_fold_2, each matcher additionally hits only if the current payee is a chosen pool entry", oracle="same")
H("C17", file="cli/config.rs", name="c17_merge_3", timeout=1800, expect_s=380,
  functions=["ConfigFragment::merge"],
  bound="3 documents; per document symbolic presence of account, operator, account_type (+value), 0..1 rewrite rule; unwind 5",
  oracle="scalar = last document that sets it; rewrite = concatenation in document order")
H("C17", file="cli/extract.rs", name="c17_rule_fold_3", tier="thorough", timeout=3000, expect_s=900,
  functions=["Extractor::extract"], bound="3 rules, otherwise as c17_rule_fold_2", oracle="same")

H("C03", file="core/book_keeping.rs", name="c03_deduce_kernel", timeout=1500, expect_s=190, map_cap=2,
  functions=["Amount += PostingAmount (fold of balancing values)", "Amount::negate", "Balance::add_amount"],
  bound="sum of the other postings v X [+ w Y at scale 2], omitted account pre-balance, bystander account; 16-bit signed; symbolic map order; unwind 6",
  models=[DEC, MAPND],
  oracle="deduced == -(sum) per commodity; omitted account moves by exactly that; bystander unchanged "
         "(whole add_transaction does not fit: 1.7M steps / >30 GB for two postings)")

# --------------------------------------------------------------------------- C12
prop("C12", title="Aliases are transparent; alias conflicts are rejected",
     level_text="Bounded model checking of the interning table every account and commodity name goes through: for EVERY sequence of 3 "
                "operations (4 in thorough) drawn from ensure / insert_canonical / insert_alias(to a canonical handed out earlier) / resolve "
                "over a 3-name pool, each return value and error equals a reference alias table; alias and canonical name yield the SAME "
                "interned value (pointer identity, which is what balances are keyed by), a name is never interned twice, and the two conflict "
                "declarations are rejected. All orders of declaration versus first use within the bound are covered. The call site, "
                "ProcessAccumulator::process on an `account a` / `commodity a` declaration with two sub-directives (alias b, alias c or "
                "comments), is run after every subset of {a, b, c} was already in use: aliases are registered also when the canonical name "
                "was used first, and a conflicting alias is rejected whichever sub-directive carries it. Feeding whole transactions with aliases through add_transaction is outside (does not fit the solver).",
     level_note="Trusted: Kani/CBMC; verif_map (keys compared by content, as the real map), bump allocator stub.")
H("C12", file="core/intern.rs", name="c12_intern_sequence_3", timeout=900, expect_s=80,
  functions=["InternStore::ensure", "InternStore::insert_canonical", "InternStore::insert_alias", "InternStore::resolve", "InternStore::get"],
  bound="every sequence of 3 operations x 3 names (1-byte names a, b, c) x alias target; unwind 6", models=[MAP, BUMP],
  oracle="reference table name -> Unregistered | Canonical | Alias(c): return values, errors, pointer identity of canonical values")
H("C12", file="core/intern.rs", name="c12_intern_sequence_4", tier="thorough", timeout=3000, expect_s=600,
  functions=["InternStore::*"], bound="every sequence of 4 operations", models=[MAP, BUMP], oracle="same")

H("C20", file="golden/lib.rs", name="c20_no_update_mismatch", timeout=900, expect_s=45, recursion=IOREC, env={"VERIF_GOLDEN_N": 2},
  functions=["Golden::new", "Golden::assert"],
  bound="content and got: every ASCII string (no NUL) of length 0..=2 with got != normalise(content); UPDATE_GOLDEN unset or empty",
  models=["fs/env stubs", "str::replace model", FMT],
  expected_failures=[{"desc": "message formatted at runtime", "loc": "Golden::assert"}],
  oracle="Golden::assert never returns (a harness-level panic placed after the call must be unreachable); the only failing solver "
         "obligation is assert's own panic; no write happens before it")

# --------------------------------------------------------------------------- C08
def _rec(e, v=1, b=1, u=0):
    return {"Expr<'_> as report::eval::Evaluable>::eval_visit": e, "ValueExpr<'_> as report::eval::Evaluable>::eval_visit": v,
            "BinaryOpExpr<'_> as report::eval::Evaluable>::eval_visit": b, "UnaryOpExpr<'_> as report::eval::Evaluable>::eval_visit": u}


prop("C08", title="Value expressions evaluate as ordinary arithmetic with commodity typing",
     level_text="Bounded model checking of the evaluator in two layers. (1) Typing and arithmetic of each operator: Evaluated::check_add/sub/"
                "mul/div, negate and the 'amount required' / 'single amount required' conversions for EVERY pair of operands drawn from "
                "{bare number, v X, v Y, v X + w Y} (16-bit values; 8-bit for *), under symbolic map order, against the typing table of the "
                "statement. (2) The recursion: real expr trees (a o b) o c, a o (b o c), (-a) o b with symbolic operators from {+,-,*} and "
                "numeric leaves evaluate to the reference arithmetic (operand order, grouping, negation). Precedence and associativity are "
                "decided by the winnow parser and are outside; inexact quotients are uninterpreted (sign/zero-ness only); deeper trees outside.",
     level_note="Trusted: Kani/CBMC; verif_map, verif_dec (quotients uninterpreted but functional); recursion of eval_visit bounded per harness "
                "with recursion unwinding assertions on (a deeper recursion would be reported, not truncated).")
for nm, exp in (("add", 125), ("sub", 125), ("mul", 315), ("div", 180)):
    H("C08", file="core/evaluated.rs", name="c08_typing_" + nm, timeout=1800, expect_s=exp, map_cap=2,
      functions=["Evaluated::check_" + nm, "Amount += / -= / *= / check_div", "SingleAmount::check_div"],
      bound="operands from {number, v X, v Y, v X + w Y}, 16-bit signed (8-bit for mul); symbolic map order; unwind 6", models=[DEC, MAPND],
      oracle="typing table of the statement; per-commodity arithmetic")
H("C08", file="core/evaluated.rs", name="c08_negate_and_amount_required", timeout=900, expect_s=40, map_cap=2,
  functions=["Evaluated::negate", "TryFrom<Evaluated> for Amount"], bound="one operand as above", models=[DEC, MAPND],
  oracle="negation per commodity; non-zero bare number is not an amount")
H("C08", file="core/amount.rs", name="c08_single_amount_required", timeout=900, expect_s=30, map_cap=2,
  functions=["TryFrom<&Amount> for SingleAmount", "TryFrom<&Amount> for PostingAmount"],
  bound="amounts with 0, 1, 2 commodities, both insertion orders, symbolic iteration order", models=[DEC, MAPND],
  oracle="2 commodities => Err for both conversions; 1 => itself; 0 => Err / bare zero")
H("C08", file="core/eval.rs", name="c08_tree_left", timeout=1800, expect_s=230, map_cap=2, recursion=_rec(2),
  functions=["Evaluable::eval_visit for ValueExpr / Expr / BinaryOpExpr / UnaryOpExpr", "Evaluated::check_add/sub/mul"],
  bound="(a o1 b) o2 c, o in {+,-,*}, 6-bit signed numeric leaves; eval_visit recursion <= 2 re-entries (assertion on)", models=[DEC],
  oracle="== apply(o2, apply(o1, a, b), c)")
H("C08", file="core/eval.rs", name="c08_tree_negated", timeout=1800, expect_s=210, map_cap=2, recursion=_rec(2),
  functions=["UnaryOpExpr::eval_visit", "Evaluable::eval_visit"], bound="(-a) o1 b", models=[DEC], oracle="== apply(o1, -a, b)")
H("C08", file="core/eval.rs", name="c08_tree_right", tier="thorough", timeout=3000, expect_s=600, map_cap=2, recursion=_rec(2), mem_gb=20,
  functions=["Evaluable::eval_visit"], bound="a o1 (b o2 c)", models=[DEC], oracle="== apply(o1, a, apply(o2, b, c))")

# --------------------------------------------------------------------------- C13
prop("C13", title="Same input, same output: runs are deterministic",
     level_text="The only source of run-to-run variation inside okane is the iteration order of std HashMap. The map model makes that order a "
                "SOLVER VARIABLE, so each harness below is decided for every order at once: a multi-commodity amount is never turned into a "
                "single amount by picking 'the first' entry; the acceptance predicate of check_balance (incl. which side of an implied exchange "
                "is which), balance assertions, the inferred amount and the operator typing give the same verdicts and values for every "
                "order. Outside: byte-identical stdout across processes, sorted listings (Balance::into_vec, all_accounts) and the inline text "
                "of multi-commodity amounts (Vec sort + fmt machinery do not fit the solver; the text harness found the order dependence on "
                "the original tree and is kept as a seeded case), the field order of rewrite matchers (std HashMap in serde types), wall clock.",
     level_note="Trusted: Kani/CBMC; verif_map's order model: all rotations of slot order, re-chosen at every structural mutation, "
                "stable between mutations (for <= 2 entries: every order).")
H("C13", file="core/amount.rs", name="c08_single_amount_required", timeout=900, expect_s=30, map_cap=2,
  functions=["TryFrom<&Amount> for SingleAmount"], bound="2-commodity amount, symbolic iteration order", models=[DEC, MAPND],
  oracle="never Ok(first entry): Err for every order")
H("C13", file="core/book_keeping.rs", name="c01_residual_2", timeout=1500, expect_s=220,
  functions=["check_balance", "Amount::maybe_pair"], bound="2-commodity residual, symbolic iteration order", models=[DEC, MAPND, FMT, BUMP],
  oracle="verdict and recorded price satisfy an order-free predicate for every order")
H("C13", file="core/book_keeping.rs", name="c01_residual_3", timeout=1500, expect_s=220,
  functions=["check_balance", "Amount::maybe_pair", "Amount::iter"], bound="3-commodity residual (zeros included), symbolic iteration order", models=[DEC, MAPND, FMT, BUMP],
  oracle="a residual with three non-zero totals is rejected for every order; verdict order-free")
H("C13", file="core/book_keeping.rs", name="c03_deduce_kernel", timeout=1500, expect_s=190, map_cap=2,
  functions=["Amount::negate", "Balance::add_amount"], bound="symbolic iteration order", models=[DEC, MAPND], oracle="order-free values")

# --------------------------------------------------------------------------- C10
prop("C10", title="Converted reports convert every amount or fail",
     level_text="Bounded model checking of price_db::convert_amount / PriceRepository::convert_single, the function both conversion "
                "strategies of `balance -X` funnel every holding through: for every amount over {X, Y, T} (symbolic presence and 6-bit signed "
                "values per commodity), target T, and symbolic availability of each rate, the call fails iff a needed rate is missing, "
                "otherwise returns exactly the sum of value x rate plus the untouched T amount, with no unconverted commodity left. The "
                "price table for (T, date) is pre-computed in the repository cache (quick tier); the thorough tier runs two conversions at two "
                "symbolic dates through the real cache and search (a table cached for one date never answers for another). Ledger::balance's "
                "two strategy branches, rounding to T's precision and the CLI flags are outside (Ledger::balance did not fit the solver: DESIGN 7).",
     level_note="Trusted: Kani/CBMC; verif_map (capacity 3), verif_dec; 6-bit values so that the products of code and reference can be matched.")
H("C10", file="core/price_db.rs", name="c10_convert_amount", timeout=1800, expect_s=330, map_cap=3,
  functions=["price_db::convert_amount", "PriceRepository::convert_single", "Amount::iter", "Amount += SingleAmount"],
  bound="holdings in X, Y, T each present or not, 6-bit signed; rates X->T, Y->T each available or not (8-bit positive); unwind 6",
  models=[DEC, MAP, FMT, BUMP], oracle="Err(RateNotFound) iff a held commodity has no rate; Ok => T total == sum value x rate + T holding, nothing else left")

H("C10", file="core/price_db.rs", name="c10_convert_two_dates", tier="thorough", timeout=3000, expect_s=980, map_cap=2, mem_gb=32,
  env={"VERIF_HEAP_CAP": 2}, loops={"compute_price_table": {"1": 4, "0": 3}},
  functions=["PriceRepository::convert_single (rate-table cache)", "NaivePriceRepository::compute_price_table"],
  bound="one pair with two dated prices in a 4-day window; the same holding converted at two symbolic days in either order; 6-bit values",
  models=[DEC, MAP, HEAP, SORT, FMT, BUMP],
  oracle="each conversion uses the price as of its own day (or fails when none exists yet): a cached table never answers for another date")

H("C14", file="core/adaptor.rs", name="c14_parsed_context_4", timeout=600, expect_s=15,
  functions=["ParsedContext::compute_line_start", "ParsedContext::as_str", "ParsedSpan::resolve"],
  bound="every ASCII text of 0..=4 bytes (a second, smaller query that stays decidable when the line computation gets expensive); unwind 6",
  models=[FMT], oracle="same as c14_parsed_context_8")
H("C14", file="core/adaptor.rs", name="c14_parsed_context_8", timeout=600, expect_s=20,
  functions=["ParsedContext::compute_line_start", "ParsedContext::as_str", "ParsedContext::span", "ParsedSpan::resolve", "clip"],
  bound="every ASCII text (CR and LF included) of 0..=8 bytes, entry span s..e, tracked item span inside it; unwind 10", models=[FMT],
  oracle="line_start == 1 + newlines before the entry's first byte; text == the entry's slice; resolve == item - entry start")


# --------------------------------------------------------------------------- C09
PT_LOOPS = {"compute_price_table": {"1": 6, "0": 3}, "binary_search_by": {"0": 2}}
prop("C09", title="Commodity conversion uses the right price",
     level_text="Bounded model checking of the price store and the rate search, below the date sort of build_naive: (1) insert_price "
                "stores every usable event in both directions (reciprocal), nothing for a zero-sided event, a price-database price replaces "
                "ledger-derived prices of the same pair and is never replaced by one; (2) Distance's ordering and extend are exactly "
                "(ledger-derived steps, steps, staleness of the stalest price) for every pair of distances; (3) the real compute_price_table "
                "on one pair with two dated prices and a symbolic query day uses the most recent price on or before that day, none if all "
                "are later; (4) on three commodities with a direct price and a two-step chain (symbolic sources, dates, rates, query day) "
                "it picks the chain the statement ranks first, multiplies the rates along it, and finds no rate when no usable chain "
                "exists; (5) posting_price_event: the price a posting with cost / lot feeds into the store (cost, else lot; per unit or for the "
                "quantity paid). Outside: the sort of same-pair records by date in build_naive, parsing of the price DB, more than two steps / "
                "competing chains of equal length (staleness as the deciding criterion is covered only through Distance's ordering), "
                "reverse edges in the search graph, Ledger::eval's plumbing.",
     level_note="Trusted: Kani/CBMC; verif_map (capacity 2), verif_heap, verif_dec (products exact; quotients exact when exact), insertion-sort "
                "model; records are constructed directly in the shape build_naive leaves them; loop bounds of compute_price_table given per "
                "loop with unwinding assertions on.")
H("C09", file="core/price_db.rs", name="c09_insert_price", timeout=900, expect_s=40, map_cap=2,
  functions=["PriceRepositoryBuilder::insert_price", "insert_impl"],
  bound="one event x X = y Y, 8-bit values incl. zero, either source; unwind 6", models=[DEC, MAP, FMT, BUMP],
  oracle="zero side => nothing stored, no panic; else one rate per direction, same date and source, positive, y/x and x/y when exact")
H("C09", file="core/price_db.rs", name="c09_source_precedence", timeout=900, expect_s=125, map_cap=2,
  functions=["PriceRepositoryBuilder::insert_price", "insert_impl"],
  bound="ledger price then price-db price for the same pair (8-bit rates); unwind 6", models=[DEC, MAP, FMT, BUMP],
  oracle="both directions marked PriceDB and hold exactly one rate")
H("C09", file="core/price_db.rs", name="c09_source_keep_db", timeout=900, expect_s=80, map_cap=2,
  functions=["PriceRepositoryBuilder::insert_price", "insert_impl"],
  bound="price-db price then ledger price for the same pair; unwind 6", models=[DEC, MAP, FMT, BUMP],
  oracle="the pair stays PriceDB-sourced in both directions")
H("C09", file="core/price_db.rs", name="c09_source_precedence_value", tier="thorough", timeout=1500, expect_s=210, map_cap=2, mem_gb=12,
  functions=["PriceRepositoryBuilder::insert_price", "insert_impl"],
  bound="ledger price then price-db price; reads the surviving record back; unwind 6",
  models=[DEC, MAP, FMT, BUMP, "global allocator -> fixed 256-byte blocks (verif_alloc)"],
  oracle="the one surviving record carries the price-db date")
H("C09", file="core/price_db.rs", name="c09_distance_order", timeout=600, expect_s=20,
  functions=["Distance::cmp/partial_cmp/eq (derived)", "Distance::extend", "WithDistance ordering impls"],
  bound="every pair of distances with 8-bit components, every extension (source, 8-bit staleness in days); unwind 4", models=[DEC],
  oracle="lexicographic (ledger steps, steps, staleness); extend: +1 ledger step only for a ledger source, +1 step, max staleness")
H("C09", file="core/price_db.rs", name="c09_asof_direct", timeout=1800, expect_s=260, mem_gb=10, map_cap=2, env={"VERIF_HEAP_CAP": 2},
  loops={"compute_price_table": {"1": 4, "0": 3}},
  functions=["NaivePriceRepository::compute_price_table", "slice::partition_point", "Distance::extend"],
  bound="one pair, two records on distinct days of an 8-day window, query day in the window, 8-bit rates, either source; "
        "search loop <= 3 pops, neighbour loop <= 2", models=[DEC, MAP, HEAP, SORT, FMT, BUMP],
  oracle="rate == latest record dated <= query day; none when both are later; T in T absent or 1")
H("C09", file="core/price_db.rs", name="c09_chain_3", timeout=2700, expect_s=570, map_cap=2, mem_gb=16, env={"VERIF_HEAP_CAP": 2},
  loops=PT_LOOPS,
  functions=["NaivePriceRepository::compute_price_table", "slice::partition_point", "Distance::extend", "WithDistance ordering", "Decimal * (model)"],
  bound="commodities X, M, T; prices X-in-T, M-in-T, X-in-M each with symbolic source, day (0..3) and 6-bit rate; query day 0..3; "
        "search loop <= 5 pops, neighbour loop <= 2, binary search <= 1 step", models=[DEC, MAP, HEAP, SORT, FMT, BUMP],
  oracle="only prices dated <= query day count; direct vs chain ranked by (ledger-derived steps, steps); chain rate = product; "
         "no usable chain => no rate")

for nm, exp in (("cost_total", 125), ("lot_and_cost", 180)):
    H("C09", file="core/book_keeping.rs", name="c01_valuation_" + nm, timeout=1500, expect_s=exp, recursion=REC0, map_cap=3,
      functions=["posting_price_event", "ComputedPosting::compute_from_syntax", "Exchange::try_from_syntax"],
      bound="one posting `v X` with annotation %s; 16-bit values, all signs and zeros; unwind 6" % nm,
      models=[FMT, DEC, MAP, BUMP, RECNOTE],
      oracle="the ledger-derived price event: none without annotation; the written cost, else the lot price; per-unit prices for 1 X, "
             "total prices for |v| X; dated by the transaction")

# --------------------------------------------------------------------------- C16
prop("C16", title="CSV import books each row with the right sign, amount and balance",
     level_text="Bounded model checking of the two places a CSV row's figures are turned into postings: (1) FieldMap::amount - credit "
                "column positive, debit column negative, an `amount` column negated for a liability account, neither column / not a "
                "number rejected - with the number parser replaced by a stub returning solver-chosen decimals; (2) the real "
                "Txn::to_double_entry / add_rate / dest_amount for every amount and sign: the configured account moves by the row's "
                "amount, the counter-posting carries the opposite amount or the secondary amount with the opposite sign, the stated rate is "
                "attached exactly to the postings in the commodity it prices, the account posting comes first for credits and last for "
                "debits, a running balance becomes an assertion on the account posting only, unmatched rows go to Income:/Expenses:Unknown "
                "and are pending. Outside: the csv reader and header mapping (FieldMap::try_new), template-valued fields, the conversion "
                "block of csv::import (rate-key direction, computed amount), row_order reversal, charges, and the book-keeping round trip.",
     level_note="Trusted: Kani/CBMC; fmt::format stub; str_to_comma_decimal stub (winnow parser not solver-reachable) and Template lookup cut; "
                "verif_map for Txn.rates; names identified by length within a pool of distinct lengths; values compared as (mantissa, scale).")
H("C16", file="cli/single_entry.rs", name="c16_double_entry_plain", timeout=1200, expect_s=110, map_cap=2,
  functions=["Txn::to_double_entry", "Txn::amount", "Txn::dest_amount", "Txn::to_posting_amount", "as_syntax_amount"],
  bound="amount 16-bit at scale 2, either sign (zero: no-crash only); counter account set or not; clear state unset/pending/cleared; "
        "running balance present or not (16-bit signed); unwind 6", models=[FMT, MAP],
  oracle="written from the statement: see level text")
H("C16", file="cli/single_entry.rs", name="c16_double_entry_conversion", timeout=1200, expect_s=125, map_cap=2,
  functions=["Txn::to_double_entry", "Txn::dest_amount", "amount_with_sign", "Txn::rate", "Txn::add_rate"],
  bound="as c16_double_entry_plain plus secondary amount present or not (16-bit, either sign as extracted) and a rate keyed on the "
        "primary or the secondary commodity; unwind 6", models=[FMT, MAP],
  oracle="secondary amount with sign opposite to the account posting; rate attached to the commodity it prices and nowhere else")
H("C16", file="cli/single_entry.rs", name="c16_add_rate", timeout=1200, expect_s=180,
  functions=["Txn::add_rate"], bound="two add_rate calls, 16-bit rates; unwind 6", models=[FMT, MAP],
  oracle="rate of a commodity in itself rejected; second distinct rate for one commodity rejected, identical one accepted")
CSVM = [FMT, "str_to_comma_decimal -> marker-to-value stub", "MappedRecord::query -> assume(false) (template fields outside)",
        "csv::StringRecord::get -> table of the harness's column texts (building a real record does not fit the solver)"]
H("C16", file="cli/csv.rs", name="c16_amount_credit_debit", timeout=1200, expect_s=200, mem_gb=12,
  functions=["FieldMap::amount", "FieldMap::resolve"],
  bound="records (credit, debit) in {(n,''),('',n)} with 16-bit signed values; asset/liability; unwind 6",
  models=CSVM, oracle="+credit / -debit")
H("C16", file="cli/csv.rs", name="c16_amount_rejected", timeout=1200, expect_s=200, mem_gb=12,
  functions=["FieldMap::amount", "FieldMap::resolve"],
  bound="records (credit, debit) in {('',''),(junk,''),('',junk)}; asset/liability; unwind 6",
  models=CSVM, oracle="Err in all three")
H("C16", file="cli/csv.rs", name="c16_amount_column", timeout=1200, expect_s=190, mem_gb=12,
  functions=["FieldMap::amount", "FieldMap::resolve"],
  bound="amount column in {n, junk, ''} with a 16-bit signed value; asset/liability; unwind 6",
  models=CSVM,
  oracle="asset: amount; liability: -amount; junk: Err")

H("C12", file="core/book_keeping.rs", name="c12_declare_account", timeout=1200, expect_s=125, map_cap=4,
  functions=["ProcessAccumulator::process (Account arm)", "InternStore::insert_canonical", "InternStore::insert_alias", "InternStore::ensure"],
  bound="declaration `account a` with two sub-directives, each `alias b` / `alias c` or a comment, processed after every subset of "
        "{a, b, c} was already used as a plain name; unwind 6",
  models=[DEC, MAP, FMT, BUMP, "add_transaction -> assume(false) (transactions outside)"],
  oracle="Err iff some name is to become an alias although already canonical (whichever sub-directive names it); otherwise a keeps its "
         "identity and b / c resolve to a iff declared an alias")
H("C12", file="core/book_keeping.rs", name="c12_declare_commodity", timeout=1200, expect_s=160, map_cap=4,
  functions=["ProcessAccumulator::process (Commodity arm)", "InternStore::insert_canonical", "InternStore::insert_alias", "CommodityStore::ensure"],
  bound="declaration `commodity a` with two sub-directives (alias b / alias c / comment) after every subset of {a, b, c} was already used; unwind 6",
  models=[DEC, MAP, FMT, BUMP, "add_transaction -> assume(false) (transactions outside)"],
  oracle="same as c12_declare_account")
