"""Property -> harness registry. One entry per Kani proof harness.

Fields: file (under /verif/harness), name, tier ('quick' harnesses also run in 'thorough'),
timeout (s, cap; on the unchanged tree every harness finishes with >= 2x margin),
functions (okane functions symbolically executed), bound (shape + value bounds + unwind),
models (environment models applied), oracle (what is asserted).
"""

FMT = "alloc::fmt::format -> empty String (messages not inspected)"
DEC = "rust_decimal + - * / checked_* round_dp cmp -> verif_dec (exact on mantissa<2^32, scale<=8)"
MAP = "std HashMap -> verif_map (capacity 4)"
MAPND = "std HashMap -> verif_map (capacity 4, iteration order a solver variable)"
BUMP = "bumpalo::Bump::alloc_layout -> global allocator"

PROPERTIES = {}


def prop(pid, **kw):
    kw.setdefault("harnesses", [])
    PROPERTIES[pid] = kw
    return kw


def H(pid, **kw):
    kw.setdefault("tier", "quick")
    kw.setdefault("timeout", 900)
    kw.setdefault("models", [])
    PROPERTIES[pid]["harnesses"].append(kw)


# --------------------------------------------------------------------------- C07
prop("C07", title="Numeric literals mean exactly what is written",
     level_text="Bounded model checking of the real PrettyDecimal::from_str: for EVERY ASCII byte string of length <= 6 "
                "(quick; <= 10 thorough) the solver decides accepted-set and value against a reference recogniser written "
                "from the statement, plus the 39..41-digit overflow step. Strings longer than the bound, the winnow token "
                "extent (primitive::pretty_decimal) and the Display round trip of values the solver cannot print are outside.",
     level_note="Trusted: Kani/CBMC; alloc::fmt::format stubbed to an empty string (error messages not inspected); input "
                "restricted to ASCII bytes viewed through from_utf8_unchecked (UTF-8 validation is not the subject); "
                "real rust_decimal try_from_i128_with_scale is executed, not modelled.")
H("C07", file="core/pretty_decimal.rs", name="c07_literal_6", tier="quick", timeout=900,
  functions=["PrettyDecimal::from_str", "try_find_char", "Decimal::try_from_i128_with_scale (real)"],
  bound="every ASCII byte string of length 0..=6 (128^6 strings, one query); unwind 8",
  models=[FMT],
  oracle="reference recogniser written from the statement: malformed => Err; well-formed => Ok with "
         "mantissa, scale, sign and grouping tag equal to what is written; `1.`/`.5` free but exact if accepted")
H("C07", file="core/pretty_decimal.rs", name="c07_overflow_39_41", tier="quick", timeout=900,
  functions=["PrettyDecimal::from_str"],
  bound="38 concrete '9' followed by exactly 1, 2 and 3 symbolic characters from [0-9.] (39..41 digit literals); unwind 50",
  models=[FMT],
  oracle="a literal beyond the 96-bit range is rejected: no Ok, no arithmetic overflow (dev) and no wrap (release)")
H("C07", file="core/pretty_decimal.rs", name="c07_literal_10", tier="thorough", timeout=2700,
  functions=["PrettyDecimal::from_str", "try_find_char"],
  bound="every ASCII byte string of length 0..=10; unwind 12",
  models=[FMT],
  oracle="same as c07_literal_6")
