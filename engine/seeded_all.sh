#!/bin/bash
# Runs seeded_eval.sh over every seeded change (or the ids given), one after another.
cd "$(dirname "$0")/.."
IDS=${@:-$(ls seeded | grep -E '^C[0-9]+-')}
for id in $IDS; do
  echo "##### $id $(date +%T)"
  bash engine/seeded_eval.sh $id ${TIER:-quick} > /dev/null 2>&1
  tail -4 seeded/$id/eval.txt
done
