#!/bin/sh
# Runs every registered quick check in sequence (used to refresh the committed evidence files).
cd "$(dirname "$0")" || exit 2
for p in $(python3 -c "import json;print(' '.join(c['property_id'] for c in json.load(open('MANIFEST.json'))['checks']))"); do
  echo "=== $p"; ./check "$p" --tier quick | tail -3; echo "exit=$?"
done
