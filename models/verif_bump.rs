//! bumpalo stubs (Kani only): arena bookkeeping is not the subject of any property.
#![allow(dead_code)]

/// `bumpalo::Bump::alloc_layout` / `try_alloc_layout` -> the global allocator.
/// Arena bookkeeping is not the subject of any property.
pub fn bump_alloc_layout_stub(_b: &bumpalo::Bump, layout: core::alloc::Layout) -> core::ptr::NonNull<u8> {
    if layout.size() == 0 {
        return core::ptr::NonNull::new(layout.align() as *mut u8).unwrap();
    }
    let p = unsafe { std::alloc::alloc(layout) };
    kani::assume(!p.is_null());
    core::ptr::NonNull::new(p).unwrap()
}

pub fn bump_try_alloc_layout_stub(
    b: &bumpalo::Bump,
    layout: core::alloc::Layout,
) -> Result<core::ptr::NonNull<u8>, bumpalo::AllocErr> {
    Ok(bump_alloc_layout_stub(b, layout))
}
