//! `verif_heap` — array-backed stand-in for `std::collections::BinaryHeap` under `cfg(kani)`.
//!
//! Why: std's heap keeps its elements in a growing `Vec` and sifts them with raw-pointer `Hole`
//! copies; with a symbolic number of pushes the allocation size becomes symbolic and CBMC runs out
//! of memory in post-processing (*measured*: compute_price_table on one pair, 17.5 GB).
//!
//! Semantics: a bag with capacity `HCAP`; `pop` removes **any** greatest element (which of several equal
//! maxima is a solver variable - std documents no order among equal elements, so every behaviour of the real
//! heap is included). Exceeding the capacity is outside the bound (`kani::assume(false)`, visible as an
//! unsatisfied cover). A faithful transcription of std's sift_up / sift_down_to_bottom on a fixed array was
//! tried and dropped: its swaps at symbolic positions cost more than the whole search (chain harness
//! 529 s / 7 GB with this model, > 19 GB with the transcription).
#![allow(dead_code)]

/// Capacity: 4 by default; a harness may lower it (registry `env={"VERIF_HEAP_CAP": n}`) when its shape
/// provably queues fewer elements at a time (a too-small value shows up as an unsatisfied cover).
pub const HCAP: usize = cap_from_env();

const fn cap_from_env() -> usize {
    match option_env!("VERIF_HEAP_CAP") {
        Some(s) => {
            let b = s.as_bytes();
            if b.len() == 1 && b[0] >= b'1' && b[0] <= b'8' {
                (b[0] - b'0') as usize
            } else {
                4
            }
        }
        None => 4,
    }
}

pub struct BinaryHeap<T> {
    slots: [Option<T>; HCAP],
}

impl<T: Ord> BinaryHeap<T> {
    pub fn new() -> Self {
        BinaryHeap { slots: [const { None }; HCAP] }
    }

    pub fn len(&self) -> usize {
        let mut n = 0;
        let mut i = 0;
        while i < HCAP {
            if self.slots[i].is_some() {
                n += 1;
            }
            i += 1;
        }
        n
    }

    pub fn is_empty(&self) -> bool {
        self.len() == 0
    }

    pub fn push(&mut self, item: T) {
        let mut i = 0;
        while i < HCAP {
            if self.slots[i].is_none() {
                self.slots[i] = Some(item);
                return;
            }
            i += 1;
        }
        kani::assume(false);
        core::mem::forget(item);
    }

    pub fn pop(&mut self) -> Option<T> {
        let mut best: Option<usize> = None;
        let mut i = 0;
        while i < HCAP {
            if let Some(x) = &self.slots[i] {
                best = match best {
                    None => Some(i),
                    Some(b) => {
                        let cur = self.slots[b].as_ref().unwrap();
                        match x.cmp(cur) {
                            core::cmp::Ordering::Greater => Some(i),
                            core::cmp::Ordering::Equal => {
                                if kani::any() {
                                    Some(i)
                                } else {
                                    Some(b)
                                }
                            }
                            core::cmp::Ordering::Less => Some(b),
                        }
                    }
                };
            }
            i += 1;
        }
        match best {
            Some(b) => self.slots[b].take(),
            None => None,
        }
    }
}
