//! `verif_heap` — array-backed stand-in for `std::collections::BinaryHeap` under `cfg(kani)`.
//!
//! Why: std's heap keeps its elements in a growing `Vec` and sifts them with raw-pointer `Hole`
//! copies; with a symbolic number of pushes the allocation size becomes symbolic and CBMC runs out
//! of memory in post-processing (*measured*: compute_price_table on one pair, 17.5 GB).
//!
//! Semantics: std's algorithm itself (push = append + sift_up; pop = take the last element, swap it with
//! the root, sift_down_to_bottom + sift_up) on a fixed array of `HCAP` slots, so the order in which equal
//! elements come out is the one the real heap produces for the same sequence of operations (the real heap
//! is deterministic; which of two equal elements comes first matters for C13). Exceeding the capacity is
//! outside the bound (`kani::assume(false)`, visible as an unsatisfied cover).
#![allow(dead_code)]

/// Capacity: 4 by default; a harness may lower it (registry `env={"VERIF_HEAP_CAP": n}`) when its shape
/// provably queues fewer elements at a time (a too-small value shows up as an unsatisfied cover).
pub const HCAP: usize = cap_from_env();

const fn cap_from_env() -> usize {
    match option_env!("VERIF_HEAP_CAP") {
        Some(s) => {
            let b = s.as_bytes();
            if b.len() == 1 && b[0] >= b'1' && b[0] <= b'8' {
                (b[0] - b'0') as usize
            } else {
                4
            }
        }
        None => 4,
    }
}

pub struct BinaryHeap<T> {
    data: [Option<T>; HCAP],
    len: usize,
}

impl<T: Ord> BinaryHeap<T> {
    pub fn new() -> Self {
        BinaryHeap { data: [const { None }; HCAP], len: 0 }
    }

    pub fn len(&self) -> usize {
        self.len
    }

    pub fn is_empty(&self) -> bool {
        self.len == 0
    }

    #[inline]
    fn le(&self, a: usize, b: usize) -> bool {
        match (&self.data[a], &self.data[b]) {
            (Some(x), Some(y)) => x <= y,
            _ => true,
        }
    }

    /// std: `sift_up(start, pos)`: the element at `pos` rises while it is greater than its parent.
    fn sift_up(&mut self, start: usize, mut pos: usize) {
        let mut k = 0;
        while k < HCAP {
            if pos <= start {
                break;
            }
            let parent = (pos - 1) / 2;
            if self.le(pos, parent) {
                break;
            }
            self.data.swap(pos, parent);
            pos = parent;
            k += 1;
        }
    }

    pub fn push(&mut self, item: T) {
        if self.len >= HCAP {
            kani::assume(false);
            core::mem::forget(item);
            return;
        }
        let old_len = self.len;
        self.data[old_len] = Some(item);
        self.len = old_len + 1;
        self.sift_up(0, old_len);
    }

    pub fn pop(&mut self) -> Option<T> {
        if self.len == 0 {
            return None;
        }
        self.len -= 1;
        let end = self.len;
        let mut item = self.data[end].take();
        if end > 0 {
            core::mem::swap(&mut item, &mut self.data[0]);
            // std: sift_down_to_bottom(0): the root element sinks to the bottom along the greater children ...
            let mut pos = 0;
            let mut child = 1;
            let mut k = 0;
            while k < HCAP {
                if child > end.saturating_sub(2) {
                    break;
                }
                if self.le(child, child + 1) {
                    child += 1;
                }
                self.data.swap(pos, child);
                pos = child;
                child = 2 * pos + 1;
                k += 1;
            }
            if child == end - 1 {
                self.data.swap(pos, child);
                pos = child;
            }
            // ... and rises again to its place
            self.sift_up(0, pos);
        }
        item
    }
}
