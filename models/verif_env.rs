//! Environment stubs (Kani only). Every stub is part of the claim of the harness that applies it.
#![allow(dead_code)]

/// `alloc::fmt::format` -> empty string. Applied only in harnesses that do not
/// inspect message text (error paths build their messages with `format!`).
pub fn fmt_format_stub(_args: core::fmt::Arguments<'_>) -> String {
    String::new()
}


/// Model of `<[T]>::sort_unstable_by_key` / `sort_by_key`: insertion sort with the caller's key
/// function (std's pattern-defeating quicksort + sorting networks do not get through CBMC even for
/// three elements). Stability is irrelevant for the callers (keys are unique account names).
pub fn slice_sort_by_key_model<T, K: Ord, F: FnMut(&T) -> K>(s: &mut [T], mut f: F) {
    let n = s.len();
    let mut i = 1;
    while i < n {
        let mut j = i;
        while j > 0 {
            let gt = f(&s[j - 1]) > f(&s[j]);
            if !gt {
                break;
            }
            s.swap(j - 1, j);
            j -= 1;
        }
        i += 1;
    }
}

/// Model of `core::slice::sort::unstable::sort` (the engine behind sort_unstable / sort_unstable_by /
/// sort_unstable_by_key): insertion sort with the caller's comparison.
pub fn unstable_sort_model<T, F>(v: &mut [T], is_less: &mut F)
where
    F: FnMut(&T, &T) -> bool,
{
    let n = v.len();
    let mut i = 1;
    while i < n {
        let mut j = i;
        while j > 0 {
            if !is_less(&v[j], &v[j - 1]) {
                break;
            }
            v.swap(j - 1, j);
            j -= 1;
        }
        i += 1;
    }
}


/// Identity model of `core::slice::sort::unstable::sort`, for harnesses that (a) build every map in key
/// order, so that the slot order the map model iterates in already is the sorted order, and (b) whose oracle
/// does not depend on the order anyway (C09: the ranking of chains, never a tie). Comparing interned names
/// through symbolically selected pointers (memcmp) inside the search loop is what made the sorted visit of
/// compute_price_table too expensive (measured: 228 s / 4 GB -> 892 s / 17 GB).
pub fn unstable_sort_identity<T, F>(_v: &mut [T], _is_less: &mut F)
where
    F: FnMut(&T, &T) -> bool,
{
}
