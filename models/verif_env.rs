//! Environment stubs (Kani only). Every stub is part of the claim of the harness that applies it.
#![allow(dead_code)]

/// `alloc::fmt::format` -> empty string. Applied only in harnesses that do not
/// inspect message text (error paths build their messages with `format!`).
pub fn fmt_format_stub(_args: core::fmt::Arguments<'_>) -> String {
    String::new()
}

