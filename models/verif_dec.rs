//! `verif_dec` — models of the `rust_decimal` arithmetic entry points, applied with
//! `#[kani::stub]`. Why: one real `Decimal + Decimal` / `round_dp` / `/` with symbolic
//! mantissas did not finish in 10 minutes under CBMC (DESIGN §2.2); the 96-bit slow
//! paths dominate although the values of interest sit on the 32-bit fast path.
//!
//! Domain D: `hi == mid == 0` (mantissa < 2^32) and `scale <= MAX_SCALE_D`.
//! On D the models below follow the control flow of rust_decimal 1.37.1 exactly
//! (zero short-cuts, which operand's scale/sign survives, `-0` results of `a + (-a)`,
//! banker's rounding). A result or operand outside D is *outside the bound*:
//! `+`, `-`, rounding and comparison `assume(false)`; `*` returns the exact 64-bit product
//! (as the real fast path does); `/` returns zero for a zero dividend, panics / `None` on a
//! zero divisor like the real one, the exact quotient when the division is exact at the
//! operands' scales, and otherwise an *uninterpreted* non-zero quotient of the right sign,
//! memoised per operand pair so that equal divisions give equal results.
//! Harnesses must not assert more about inexact quotients than sign and non-zero-ness.
#![allow(dead_code)]

use core::cmp::Ordering;
use rust_decimal::{Decimal, RoundingStrategy};

pub const MAX_SCALE_D: u32 = 8;

const P10: [u32; 10] = [1, 10, 100, 1_000, 10_000, 100_000, 1_000_000, 10_000_000, 100_000_000, 1_000_000_000];

#[inline(always)]
fn in_dom(d: &Decimal) -> bool {
    let u = d.unpack();
    u.hi == 0 && u.mid == 0 && u.scale <= MAX_SCALE_D
}

#[inline(always)]
fn require_dom(d: &Decimal) {
    kani::assume(in_dom(d));
}

/// v * 10^by with the multiplier a constant on every branch (a symbolic x symbolic 64/128-bit product
/// bit-blasts into gigabytes; by is almost always concrete after constant propagation anyway).
#[inline(always)]
fn scale_up(v: u64, by: u32) -> u64 {
    match by {
        0 => v,
        1 => v * 10,
        2 => v * 100,
        3 => v * 1_000,
        4 => v * 10_000,
        5 => v * 100_000,
        6 => v * 1_000_000,
        7 => v * 10_000_000,
        8 => v * 100_000_000,
        _ => {
            kani::assume(false);
            v
        }
    }
}

#[inline(always)]
fn rescale32(v: u32, by: u32) -> u32 {
    // by <= MAX_SCALE_D
    let r = scale_up(v as u64, by);
    kani::assume(r <= u32::MAX as u64);
    r as u32
}

/// rust_decimal::ops::add::add_sub_internal restricted to D (fast_add path).
fn add_sub_model(d1: &Decimal, d2: &Decimal, subtract: bool) -> Decimal {
    if d1.is_zero() {
        let mut r = *d2;
        if subtract && !d2.is_zero() {
            r.set_sign_negative(d2.is_sign_positive());
        }
        return r;
    }
    if d2.is_zero() {
        return *d1;
    }
    require_dom(d1);
    require_dom(d2);
    let u1 = d1.unpack();
    let u2 = d2.unpack();
    let subtract = subtract ^ (u1.negative != u2.negative);
    let (l1, l2, scale) = if u1.scale == u2.scale {
        (u1.lo, u2.lo, u1.scale)
    } else if u2.scale < u1.scale {
        (u1.lo, rescale32(u2.lo, u1.scale - u2.scale), u1.scale)
    } else {
        (rescale32(u1.lo, u2.scale - u1.scale), u2.lo, u2.scale)
    };
    let neg1 = u1.negative;
    if subtract {
        if l1 < l2 {
            raw(l2 - l1, !neg1, scale)
        } else {
            // l1 == l2 gives a zero carrying d1's sign bit cleared by from_parts_raw
            raw(l1 - l2, neg1, scale)
        }
    } else {
        let s = l1 as u64 + l2 as u64;
        kani::assume(s <= u32::MAX as u64);
        raw(s as u32, neg1, scale)
    }
}

/// Decimal::from_parts_raw: a zero mantissa keeps the scale and drops the sign.
#[inline(always)]
fn raw(lo: u32, negative: bool, scale: u32) -> Decimal {
    Decimal::from_parts(lo, 0, 0, negative, scale)
}

pub fn add_ref<'a, 'b>(a: &'a Decimal, b: &'b Decimal) -> Decimal
where
    'a: 'a,
    'b: 'b,
{
    add_sub_model(a, b, false)
}

pub fn sub_ref<'a, 'b>(a: &'a Decimal, b: &'b Decimal) -> Decimal
where
    'a: 'a,
    'b: 'b,
{
    add_sub_model(a, b, true)
}

pub fn checked_add(a: Decimal, b: Decimal) -> Option<Decimal> {
    Some(add_sub_model(&a, &b, false))
}

pub fn checked_sub(a: Decimal, b: Decimal) -> Option<Decimal> {
    Some(add_sub_model(&a, &b, true))
}

/// rust_decimal::ops::mul::mul_impl, 32x32 fast path.
fn mul_model(d1: &Decimal, d2: &Decimal) -> Decimal {
    if d1.is_zero() || d2.is_zero() {
        return Decimal::ZERO;
    }
    let u1 = d1.unpack();
    let u2 = d2.unpack();
    let negative = u1.negative ^ u2.negative;
    if in_dom(d1) && in_dom(d2) {
        let p = (u1.lo as u64) * (u2.lo as u64);
        return Decimal::from_parts(p as u32, (p >> 32) as u32, 0, negative, u1.scale + u2.scale);
    }
    // an operand outside D (e.g. an inexact quotient): uninterpreted non-zero product of the right sign
    uninterpreted(negative)
}

pub fn mul_ref<'a, 'b>(a: &'a Decimal, b: &'b Decimal) -> Decimal
where
    'a: 'a,
    'b: 'b,
{
    mul_model(a, b)
}

pub fn checked_mul(a: Decimal, b: Decimal) -> Option<Decimal> {
    Some(mul_model(&a, &b))
}

fn uninterpreted(negative: bool) -> Decimal {
    let lo: u32 = kani::any();
    let mid: u32 = kani::any();
    let scale: u32 = kani::any();
    kani::assume(scale <= 28);
    kani::assume(lo != 0 || mid != 0);
    Decimal::from_parts(lo, mid, 0, negative, scale)
}

const MEMO: usize = 4;
static mut DIV_MEMO: [Option<([u8; 16], [u8; 16], [u8; 16])>; MEMO] = [None, None, None, None];

fn div_model(a: &Decimal, b: &Decimal) -> Option<Decimal> {
    if b.is_zero() {
        return None;
    }
    if a.is_zero() {
        return Some(Decimal::ZERO);
    }
    let ua = a.unpack();
    let ub = b.unpack();
    let negative = ua.negative ^ ub.negative;
    if in_dom(a) && in_dom(b) && ua.scale >= ub.scale && ua.lo % ub.lo == 0 {
        // remainder 0 and non-negative scale: the real loop breaks immediately
        return Some(Decimal::from_parts(ua.lo / ub.lo, 0, 0, negative, ua.scale - ub.scale));
    }
    let ka = a.serialize();
    let kb = b.serialize();
    unsafe {
        let mut i = 0;
        while i < MEMO {
            match &DIV_MEMO[i] {
                Some((x, y, q)) => {
                    // compared as integers: `==` on [u8; 16] is a 16-iteration memcmp loop
                    if u128::from_le_bytes(*x) == u128::from_le_bytes(ka) && u128::from_le_bytes(*y) == u128::from_le_bytes(kb) {
                        return Some(Decimal::deserialize(*q));
                    }
                }
                None => {
                    let q = uninterpreted(negative);
                    DIV_MEMO[i] = Some((ka, kb, q.serialize()));
                    return Some(q);
                }
            }
            i += 1;
        }
    }
    // more distinct inexact divisions than the memo holds: outside the bound
    kani::assume(false);
    None
}

pub fn div_ref<'a, 'b>(a: &'a Decimal, b: &'b Decimal) -> Decimal
where
    'a: 'a,
    'b: 'b,
{
    match div_model(a, b) {
        Some(q) => q,
        None => panic!("Division by zero"),
    }
}

pub fn checked_div(a: Decimal, b: Decimal) -> Option<Decimal> {
    div_model(&a, &b)
}

/// Decimal::round_dp_with_strategy for MidpointNearestEven on D.
pub fn round_dp_with_strategy(d: &Decimal, dp: u32, strategy: RoundingStrategy) -> Decimal {
    let u = d.unpack();
    if u.scale <= dp {
        return *d;
    }
    if d.is_zero() {
        // real code keeps the sign bit of a negative zero here
        let mut z = Decimal::from_parts(0, 0, 0, false, dp);
        z.set_sign_negative(u.negative);
        return z;
    }
    require_dom(d);
    match strategy {
        RoundingStrategy::MidpointNearestEven => {}
        _ => {
            // okane only uses MidpointNearestEven; anything else is outside the model
            kani::assume(false);
        }
    }
    let diff = u.scale - dp; // 1..=MAX_SCALE_D
    // division by a constant on every branch
    let (mut q, r, half) = match diff {
        1 => (u.lo / 10, u.lo % 10, 5),
        2 => (u.lo / 100, u.lo % 100, 50),
        3 => (u.lo / 1_000, u.lo % 1_000, 500),
        4 => (u.lo / 10_000, u.lo % 10_000, 5_000),
        5 => (u.lo / 100_000, u.lo % 100_000, 50_000),
        6 => (u.lo / 1_000_000, u.lo % 1_000_000, 500_000),
        7 => (u.lo / 10_000_000, u.lo % 10_000_000, 5_000_000),
        8 => (u.lo / 100_000_000, u.lo % 100_000_000, 50_000_000),
        _ => {
            kani::assume(false);
            (0, 0, 0)
        }
    };
    if r > half || (r == half && (q & 1) == 1) {
        q += 1;
    }
    Decimal::from_parts(q, 0, 0, u.negative, dp)
}

/// rust_decimal::ops::cmp::cmp_impl on D.
pub fn cmp_impl(d1: &Decimal, d2: &Decimal) -> Ordering {
    if d2.is_zero() {
        return if d1.is_zero() {
            Ordering::Equal
        } else if d1.is_sign_negative() {
            Ordering::Less
        } else {
            Ordering::Greater
        };
    }
    if d1.is_zero() {
        return if d2.is_sign_negative() { Ordering::Greater } else { Ordering::Less };
    }
    if d1.is_sign_negative() != d2.is_sign_negative() {
        return if d1.is_sign_negative() { Ordering::Less } else { Ordering::Greater };
    }
    let u1 = d1.unpack();
    let u2 = d2.unpack();
    kani::assume(u1.hi == 0 && u2.hi == 0 && u1.scale <= MAX_SCALE_D && u2.scale <= MAX_SCALE_D);
    // mantissas below 2^36 so that the aligned values fit 64 bits (10^8 < 2^27)
    kani::assume(u1.mid < 16 && u2.mid < 16);
    let m1 = ((u1.mid as u64) << 32) | u1.lo as u64;
    let m2 = ((u2.mid as u64) << 32) | u2.lo as u64;
    let (a, b) = if u1.scale == u2.scale {
        (m1, m2)
    } else if u1.scale < u2.scale {
        (scale_up(m1, u2.scale - u1.scale), m2)
    } else {
        (m1, scale_up(m2, u1.scale - u2.scale))
    };
    let o = a.cmp(&b);
    if u1.negative {
        o.reverse()
    } else {
        o
    }
}

/// Cheap stand-in for `<Decimal as Display>::fmt` in harnesses about the *arrangement* of printed
/// amounts (order, separators), not about digits: one character per value (rust_decimal's
/// to_str_internal costs ~32 unwindings per number even for concrete values).
pub fn display_fmt_tiny(d: &Decimal, f: &mut core::fmt::Formatter<'_>) -> core::fmt::Result {
    let u = d.unpack();
    f.write_str(match u.lo {
        0 => "0",
        1 => "1",
        2 => "2",
        3 => "3",
        _ => "9",
    })
}
