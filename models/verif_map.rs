//! `verif_map` — array-backed stand-in for `std::collections::HashMap` under `cfg(kani)`.
//!
//! Why: the real map needs `getrandom` (FFI) and SipHash over symbolic pointers; two inserts
//! did not finish in 10 minutes under CBMC (DESIGN §2.2).
//!
//! Semantics: an association list with capacity `CAP`, keys compared with `==` (through
//! `Borrow`, like the real map). Exceeding the capacity is outside the bound
//! (`kani::assume(false)`). **Iteration order is a solver variable** when
//! `set_order_nondet(true)` was called by the harness: each map carries a rotation `rot`,
//! re-chosen nondeterministically at every structural mutation (new key inserted, key
//! removed) and stable in between, so two traversals of an unmodified map agree — the only
//! guarantee the real `HashMap` gives. With order nondeterminism off, iteration is in slot
//! order (insertion order, holes reused).
#![allow(dead_code)]

use core::borrow::Borrow;

/// Capacity: 4 by default; a harness may lower it (registry `map_cap`, passed as the compile-time
/// environment variable VERIF_MAP_CAP) when its shape provably needs fewer entries — exceeding the
/// capacity is `assume(false)`, so a too-small value shows up as an unsatisfied vacuity cover.
pub const CAP: usize = cap_from_env();

const fn cap_from_env() -> usize {
    match option_env!("VERIF_MAP_CAP") {
        Some(s) => {
            let b = s.as_bytes();
            if b.len() == 1 && b[0] >= b'1' && b[0] <= b'8' {
                (b[0] - b'0') as usize
            } else {
                4
            }
        }
        None => 4,
    }
}

static mut ORDER_NONDET: bool = false;

/// Harness switch: make iteration order of every map a solver variable from now on.
pub fn set_order_nondet(on: bool) {
    unsafe {
        ORDER_NONDET = on;
    }
}

#[inline(always)]
fn pick_rot() -> usize {
    if unsafe { ORDER_NONDET } {
        let r: usize = kani::any();
        kani::assume(r < CAP);
        r
    } else {
        0
    }
}

pub struct HashMap<K, V> {
    slots: [Option<(K, V)>; CAP],
    rot: usize,
}

impl<K, V> HashMap<K, V> {
    #[inline]
    pub fn new() -> Self {
        HashMap { slots: [const { None }; CAP], rot: 0 }
    }

    pub fn with_capacity(_n: usize) -> Self {
        Self::new()
    }

    pub fn len(&self) -> usize {
        let mut n = 0;
        let mut i = 0;
        while i < CAP {
            if self.slots[i].is_some() {
                n += 1;
            }
            i += 1;
        }
        n
    }

    pub fn is_empty(&self) -> bool {
        self.len() == 0
    }

    pub fn iter(&self) -> hash_map::Iter<'_, K, V> {
        hash_map::Iter { map: self, pos: 0 }
    }

    pub fn iter_mut(&mut self) -> hash_map::IterMut<'_, K, V> {
        let rot = self.rot;
        hash_map::IterMut { slots: self.slots.each_mut().map(Some), rot, pos: 0 }
    }

    pub fn values(&self) -> hash_map::Values<'_, K, V> {
        hash_map::Values { inner: self.iter() }
    }

    pub fn values_mut(&mut self) -> hash_map::ValuesMut<'_, K, V> {
        hash_map::ValuesMut { inner: self.iter_mut() }
    }

    pub fn keys(&self) -> hash_map::Keys<'_, K, V> {
        hash_map::Keys { inner: self.iter() }
    }

    pub fn clear(&mut self) {
        let mut i = 0;
        while i < CAP {
            self.slots[i] = None;
            i += 1;
        }
    }

    pub fn retain<F: FnMut(&K, &mut V) -> bool>(&mut self, mut f: F) {
        let mut removed = false;
        let mut i = 0;
        while i < CAP {
            let keep = match &mut self.slots[i] {
                Some((k, v)) => f(k, v),
                None => true,
            };
            if !keep {
                self.slots[i] = None;
                removed = true;
            }
            i += 1;
        }
        if removed {
            self.rot = pick_rot();
        }
    }
}

impl<K: Eq, V> HashMap<K, V> {
    fn find<Q: ?Sized + Eq>(&self, k: &Q) -> Option<usize>
    where
        K: Borrow<Q>,
    {
        let mut i = 0;
        while i < CAP {
            if let Some((kk, _)) = &self.slots[i] {
                if kk.borrow() == k {
                    return Some(i);
                }
            }
            i += 1;
        }
        None
    }

    fn free_slot(&self) -> usize {
        let mut i = 0;
        while i < CAP {
            if self.slots[i].is_none() {
                return i;
            }
            i += 1;
        }
        // capacity exceeded: outside the stated bound
        kani::assume(false);
        0
    }

    pub fn get<Q: ?Sized + Eq>(&self, k: &Q) -> Option<&V>
    where
        K: Borrow<Q>,
    {
        match self.find(k) {
            Some(i) => self.slots[i].as_ref().map(|(_, v)| v),
            None => None,
        }
    }

    pub fn get_key_value<Q: ?Sized + Eq>(&self, k: &Q) -> Option<(&K, &V)>
    where
        K: Borrow<Q>,
    {
        match self.find(k) {
            Some(i) => self.slots[i].as_ref().map(|(k, v)| (k, v)),
            None => None,
        }
    }

    pub fn get_mut<Q: ?Sized + Eq>(&mut self, k: &Q) -> Option<&mut V>
    where
        K: Borrow<Q>,
    {
        match self.find(k) {
            Some(i) => self.slots[i].as_mut().map(|(_, v)| v),
            None => None,
        }
    }

    pub fn contains_key<Q: ?Sized + Eq>(&self, k: &Q) -> bool
    where
        K: Borrow<Q>,
    {
        self.find(k).is_some()
    }

    pub fn insert(&mut self, k: K, v: V) -> Option<V> {
        match self.find(&k) {
            Some(i) => {
                let old = self.slots[i].take();
                self.slots[i] = Some((k, v));
                old.map(|(_, v)| v)
            }
            None => {
                let i = self.free_slot();
                self.slots[i] = Some((k, v));
                self.rot = pick_rot();
                None
            }
        }
    }

    pub fn remove<Q: ?Sized + Eq>(&mut self, k: &Q) -> Option<V>
    where
        K: Borrow<Q>,
    {
        match self.find(k) {
            Some(i) => {
                let old = self.slots[i].take();
                self.rot = pick_rot();
                old.map(|(_, v)| v)
            }
            None => None,
        }
    }

    pub fn entry(&mut self, k: K) -> hash_map::Entry<'_, K, V> {
        match self.find(&k) {
            Some(i) => hash_map::Entry::Occupied(hash_map::OccupiedEntry { map: self, idx: i, key: k }),
            None => hash_map::Entry::Vacant(hash_map::VacantEntry { map: self, key: k }),
        }
    }
}

impl<K, V> Default for HashMap<K, V> {
    fn default() -> Self {
        Self::new()
    }
}

impl<K: Clone, V: Clone> Clone for HashMap<K, V> {
    fn clone(&self) -> Self {
        let mut r = Self::new();
        let mut i = 0;
        while i < CAP {
            r.slots[i] = self.slots[i].clone();
            i += 1;
        }
        r.rot = self.rot;
        r
    }
}

impl<K: core::fmt::Debug, V: core::fmt::Debug> core::fmt::Debug for HashMap<K, V> {
    fn fmt(&self, f: &mut core::fmt::Formatter<'_>) -> core::fmt::Result {
        f.debug_map().entries(self.iter()).finish()
    }
}

/// Content equality, independent of slot positions and rotation (like the real map).
impl<K: Eq, V: PartialEq> PartialEq for HashMap<K, V> {
    fn eq(&self, other: &Self) -> bool {
        if self.len() != other.len() {
            return false;
        }
        let mut i = 0;
        while i < CAP {
            if let Some((k, v)) = &self.slots[i] {
                match other.get(k) {
                    Some(v2) => {
                        if v != v2 {
                            return false;
                        }
                    }
                    None => return false,
                }
            }
            i += 1;
        }
        true
    }
}

impl<K: Eq, V: Eq> Eq for HashMap<K, V> {}

impl<K: Eq, V> FromIterator<(K, V)> for HashMap<K, V> {
    fn from_iter<T: IntoIterator<Item = (K, V)>>(iter: T) -> Self {
        let mut m = Self::new();
        for (k, v) in iter {
            m.insert(k, v);
        }
        m
    }
}

impl<K: Eq, V> Extend<(K, V)> for HashMap<K, V> {
    fn extend<T: IntoIterator<Item = (K, V)>>(&mut self, iter: T) {
        for (k, v) in iter {
            self.insert(k, v);
        }
    }
}

impl<K, V> IntoIterator for HashMap<K, V> {
    type Item = (K, V);
    type IntoIter = hash_map::IntoIter<K, V>;
    fn into_iter(self) -> Self::IntoIter {
        let rot = self.rot;
        hash_map::IntoIter { slots: self.slots, rot, pos: 0 }
    }
}

impl<'a, K, V> IntoIterator for &'a HashMap<K, V> {
    type Item = (&'a K, &'a V);
    type IntoIter = hash_map::Iter<'a, K, V>;
    fn into_iter(self) -> Self::IntoIter {
        self.iter()
    }
}

impl<'a, K, V> IntoIterator for &'a mut HashMap<K, V> {
    type Item = (&'a K, &'a mut V);
    type IntoIter = hash_map::IterMut<'a, K, V>;
    fn into_iter(self) -> Self::IntoIter {
        self.iter_mut()
    }
}

impl<K: Eq, V, const N: usize> From<[(K, V); N]> for HashMap<K, V> {
    fn from(arr: [(K, V); N]) -> Self {
        arr.into_iter().collect()
    }
}

impl<K: Eq + Borrow<Q>, Q: ?Sized + Eq, V> core::ops::Index<&Q> for HashMap<K, V> {
    type Output = V;
    fn index(&self, k: &Q) -> &V {
        self.get(k).expect("no entry found for key")
    }
}

pub mod hash_map {
    use super::{HashMap, CAP};

    pub struct Iter<'a, K, V> {
        pub(super) map: &'a HashMap<K, V>,
        pub(super) pos: usize,
    }

    impl<'a, K, V> Iterator for Iter<'a, K, V> {
        type Item = (&'a K, &'a V);
        fn next(&mut self) -> Option<Self::Item> {
            while self.pos < CAP {
                let i = (self.pos + self.map.rot) % CAP;
                self.pos += 1;
                if let Some((k, v)) = &self.map.slots[i] {
                    return Some((k, v));
                }
            }
            None
        }
    }

    impl<K, V> Clone for Iter<'_, K, V> {
        fn clone(&self) -> Self {
            Iter { map: self.map, pos: self.pos }
        }
    }

    impl<K: core::fmt::Debug, V: core::fmt::Debug> core::fmt::Debug for Iter<'_, K, V> {
        fn fmt(&self, f: &mut core::fmt::Formatter<'_>) -> core::fmt::Result {
            f.write_str("Iter")
        }
    }

    impl<K, V> core::iter::FusedIterator for Iter<'_, K, V> {}

    pub struct IterMut<'a, K, V> {
        pub(super) slots: [Option<&'a mut Option<(K, V)>>; CAP],
        pub(super) rot: usize,
        pub(super) pos: usize,
    }

    impl<'a, K, V> Iterator for IterMut<'a, K, V> {
        type Item = (&'a K, &'a mut V);
        fn next(&mut self) -> Option<Self::Item> {
            while self.pos < CAP {
                let i = (self.pos + self.rot) % CAP;
                self.pos += 1;
                if let Some(slot) = self.slots[i].take() {
                    if let Some((k, v)) = slot.as_mut() {
                        return Some((&*k, v));
                    }
                }
            }
            None
        }
    }

    pub struct IntoIter<K, V> {
        pub(super) slots: [Option<(K, V)>; CAP],
        pub(super) rot: usize,
        pub(super) pos: usize,
    }

    impl<K, V> Iterator for IntoIter<K, V> {
        type Item = (K, V);
        fn next(&mut self) -> Option<Self::Item> {
            while self.pos < CAP {
                let i = (self.pos + self.rot) % CAP;
                self.pos += 1;
                if let Some(kv) = self.slots[i].take() {
                    return Some(kv);
                }
            }
            None
        }
    }

    pub struct Values<'a, K, V> {
        pub(super) inner: Iter<'a, K, V>,
    }
    impl<'a, K, V> Iterator for Values<'a, K, V> {
        type Item = &'a V;
        fn next(&mut self) -> Option<&'a V> {
            self.inner.next().map(|(_, v)| v)
        }
    }

    pub struct Keys<'a, K, V> {
        pub(super) inner: Iter<'a, K, V>,
    }
    impl<'a, K, V> Iterator for Keys<'a, K, V> {
        type Item = &'a K;
        fn next(&mut self) -> Option<&'a K> {
            self.inner.next().map(|(k, _)| k)
        }
    }

    pub struct ValuesMut<'a, K, V> {
        pub(super) inner: IterMut<'a, K, V>,
    }
    impl<'a, K, V> Iterator for ValuesMut<'a, K, V> {
        type Item = &'a mut V;
        fn next(&mut self) -> Option<&'a mut V> {
            self.inner.next().map(|(_, v)| v)
        }
    }

    pub enum Entry<'a, K, V> {
        Occupied(OccupiedEntry<'a, K, V>),
        Vacant(VacantEntry<'a, K, V>),
    }

    pub struct OccupiedEntry<'a, K, V> {
        pub(super) map: &'a mut HashMap<K, V>,
        pub(super) idx: usize,
        pub(super) key: K,
    }

    pub struct VacantEntry<'a, K, V> {
        pub(super) map: &'a mut HashMap<K, V>,
        pub(super) key: K,
    }

    impl<'a, K, V> OccupiedEntry<'a, K, V> {
        pub fn get(&self) -> &V {
            &self.map.slots[self.idx].as_ref().unwrap().1
        }
        pub fn get_mut(&mut self) -> &mut V {
            &mut self.map.slots[self.idx].as_mut().unwrap().1
        }
        pub fn into_mut(self) -> &'a mut V {
            &mut self.map.slots[self.idx].as_mut().unwrap().1
        }
        pub fn insert(&mut self, v: V) -> V {
            core::mem::replace(self.get_mut(), v)
        }
        pub fn key(&self) -> &K {
            &self.key
        }
    }

    impl<'a, K, V> VacantEntry<'a, K, V> {
        pub fn insert(self, v: V) -> &'a mut V {
            let mut i = 0;
            let mut free = CAP;
            while i < CAP {
                if self.map.slots[i].is_none() && free == CAP {
                    free = i;
                }
                i += 1;
            }
            if free == CAP {
                kani::assume(false);
                free = 0;
            }
            self.map.slots[free] = Some((self.key, v));
            self.map.rot = super::pick_rot();
            &mut self.map.slots[free].as_mut().unwrap().1
        }
        pub fn key(&self) -> &K {
            &self.key
        }
    }

    impl<'a, K, V> Entry<'a, K, V> {
        pub fn or_insert(self, default: V) -> &'a mut V {
            match self {
                Entry::Occupied(e) => e.into_mut(),
                Entry::Vacant(e) => e.insert(default),
            }
        }
        pub fn or_insert_with<F: FnOnce() -> V>(self, f: F) -> &'a mut V {
            match self {
                Entry::Occupied(e) => e.into_mut(),
                Entry::Vacant(e) => e.insert(f()),
            }
        }
        pub fn or_default(self) -> &'a mut V
        where
            V: Default,
        {
            match self {
                Entry::Occupied(e) => e.into_mut(),
                Entry::Vacant(e) => e.insert(V::default()),
            }
        }
        pub fn and_modify<F: FnOnce(&mut V)>(self, f: F) -> Self {
            match self {
                Entry::Occupied(mut e) => {
                    f(e.get_mut());
                    Entry::Occupied(e)
                }
                Entry::Vacant(e) => Entry::Vacant(e),
            }
        }
    }
}

/// `std::collections::HashSet` over the same association list (a change under test may introduce one,
/// e.g. a visited set; without a model the real set drags `getrandom` into the query).
pub struct HashSet<K> {
    map: HashMap<K, ()>,
}

impl<K> HashSet<K> {
    pub fn new() -> Self {
        HashSet { map: HashMap::new() }
    }
    pub fn with_capacity(_n: usize) -> Self {
        Self::new()
    }
    pub fn len(&self) -> usize {
        self.map.len()
    }
    pub fn is_empty(&self) -> bool {
        self.map.is_empty()
    }
    pub fn clear(&mut self) {
        self.map.clear()
    }
    pub fn iter(&self) -> hash_map::Keys<'_, K, ()> {
        self.map.keys()
    }
}

impl<K: Eq> HashSet<K> {
    /// true when the value was not present yet
    pub fn insert(&mut self, k: K) -> bool {
        self.map.insert(k, ()).is_none()
    }
    pub fn contains<Q: ?Sized + Eq>(&self, k: &Q) -> bool
    where
        K: Borrow<Q>,
    {
        self.map.contains_key(k)
    }
    pub fn remove<Q: ?Sized + Eq>(&mut self, k: &Q) -> bool
    where
        K: Borrow<Q>,
    {
        self.map.remove(k).is_some()
    }
}

impl<K> Default for HashSet<K> {
    fn default() -> Self {
        Self::new()
    }
}

impl<K: core::fmt::Debug> core::fmt::Debug for HashSet<K> {
    fn fmt(&self, f: &mut core::fmt::Formatter<'_>) -> core::fmt::Result {
        f.write_str("HashSet")
    }
}

impl<K: Eq> FromIterator<K> for HashSet<K> {
    fn from_iter<T: IntoIterator<Item = K>>(iter: T) -> Self {
        let mut s = Self::new();
        for k in iter {
            s.insert(k);
        }
        s
    }
}
