//! `verif_alloc` — fixed-block model of the global allocator's `alloc` / `realloc` / `dealloc` (Kani only).
//!
//! Why: once two paths that differ in whether a `Vec` was already allocated are merged (e.g. an
//! `insert_price` that returns early for a zero amount), the capacity of that `Vec` is a symbolic value,
//! the next `push` asks for a *symbolic number of bytes*, and CBMC models the block as an array of
//! symbolic size; reading an element back then needs the array theory: measured 16-18 GB in
//! post-processing for two `insert_price` calls followed by `entries[0]`.
//!
//! Model: every request is served by a block of `BLOCK` bytes (default 256, compile-time environment
//! variable VERIF_ALLOC_BLOCK); larger requests are outside the bound (`assume(false)`, visible as an
//! unsatisfied cover). `realloc` is therefore always in place and `dealloc` is a no-op. Blocks are zero-initialised (safe Rust never
//! reads uninitialised memory). Out-of-bounds accesses into the slack of a block are not detected — memory
//! safety of std is not a subject of the harnesses that apply this model.
#![allow(dead_code)]

use core::alloc::Layout;
use core::ptr::NonNull;

pub const BLOCK: usize = block_from_env();

const fn block_from_env() -> usize {
    match option_env!("VERIF_ALLOC_BLOCK") {
        Some(s) => {
            let b = s.as_bytes();
            let mut v = 0usize;
            let mut i = 0;
            while i < b.len() {
                v = v * 10 + (b[i] - b'0') as usize;
                i += 1;
            }
            v
        }
        None => 256,
    }
}

/// stub for `alloc::alloc::alloc`
pub unsafe fn alloc_stub(layout: Layout) -> *mut u8 {
    kani::assume(layout.size() <= BLOCK);
    unsafe { std::alloc::alloc_zeroed(Layout::from_size_align_unchecked(BLOCK, layout.align())) }
}

/// stub for `alloc::alloc::dealloc_nonnull`: blocks are never reused (std's public `dealloc` delegates to
/// `dealloc_nonnull`, so there is nothing left to call; leaking is unobservable for the harnesses).
pub unsafe fn dealloc_nonnull_stub(_ptr: NonNull<u8>, _layout: Layout) {}

/// stub for `alloc::alloc::realloc_nonnull`
pub unsafe fn realloc_nonnull_stub(ptr: NonNull<u8>, _layout: Layout, new_size: usize) -> *mut u8 {
    kani::assume(new_size <= BLOCK);
    ptr.as_ptr()
}
