//! `vk` — the one interface harnesses use to obtain symbolic inputs.
//!
//! * under `cfg(kani)` every draw is a `kani::any()` (a solver variable);
//! * natively (`cfg(not(kani))`, used by `./check replay`) the draws are read, in
//!   order, from the byte vectors Kani's concrete playback printed for a
//!   counterexample, so the *same harness body* runs against the real crates
//!   (real `HashMap`, real `rust_decimal`, real `bumpalo`) with the solver's values.
//!
//! Harnesses draw all their inputs first, in a fixed order, so the first K
//! playback vectors are exactly the harness inputs.
#![allow(dead_code)]

#[cfg(kani)]
mod imp {
    #[inline(always)]
    pub fn u8() -> u8 {
        kani::any()
    }
    #[inline(always)]
    pub fn u16() -> u16 {
        kani::any()
    }
    #[inline(always)]
    pub fn u32() -> u32 {
        kani::any()
    }
    #[inline(always)]
    pub fn bool() -> bool {
        kani::any()
    }
    #[inline(always)]
    pub fn assume(c: bool) {
        kani::assume(c)
    }
    #[inline(always)]
    pub fn note(_s: &dyn Fn() -> String) {}
    #[inline(always)]
    pub fn is_replay() -> bool {
        false
    }
}

#[cfg(not(kani))]
mod imp {
    use std::cell::RefCell;
    use std::collections::VecDeque;

    thread_local! {
        pub static INPUTS: RefCell<VecDeque<Vec<u8>>> = RefCell::new(VecDeque::new());
        pub static NOTES: RefCell<Vec<String>> = RefCell::new(Vec::new());
    }

    /// Marker payloads used by the replay driver to classify a panic.
    pub const ASSUME_FAILED: &str = "VK_ASSUME_FAILED";
    pub const INPUT_EXHAUSTED: &str = "VK_INPUT_EXHAUSTED";

    fn next(n: usize) -> u64 {
        let v = INPUTS.with(|i| i.borrow_mut().pop_front());
        let v = match v {
            Some(v) => v,
            None => std::panic::panic_any(INPUT_EXHAUSTED),
        };
        let mut r = 0u64;
        for (k, b) in v.iter().take(n).enumerate() {
            r |= (*b as u64) << (8 * k);
        }
        r
    }
    pub fn u8() -> u8 {
        next(1) as u8
    }
    pub fn u16() -> u16 {
        next(2) as u16
    }
    pub fn u32() -> u32 {
        next(4) as u32
    }
    pub fn bool() -> bool {
        next(1) & 1 == 1
    }
    pub fn assume(c: bool) {
        if !c {
            std::panic::panic_any(ASSUME_FAILED);
        }
    }
    pub fn note(s: &dyn Fn() -> String) {
        let s = s();
        NOTES.with(|n| n.borrow_mut().push(s));
    }
    pub fn is_replay() -> bool {
        true
    }
}

pub use imp::*;

/// Draws a value in `0..n` (n small).
#[inline(always)]
pub fn below(n: u8) -> u8 {
    let v = u8();
    assume(v < n);
    v
}

/// `N` symbolic bytes.
#[inline(always)]
pub fn bytes<const N: usize>() -> [u8; N] {
    let mut a = [0u8; N];
    let mut i = 0;
    while i < N {
        a[i] = u8();
        i += 1;
    }
    a
}

/// Vacuity witness: under Kani a cover property, natively nothing.
#[macro_export]
macro_rules! vk_cover {
    ($c:expr, $m:literal) => {{
        #[cfg(kani)]
        kani::cover!($c, $m);
        #[cfg(not(kani))]
        {
            let _ = $c;
        }
    }};
}

/// Native replay driver: loads the inputs of a replay file and runs `f`,
/// classifying the outcome. Returns (reproduced, message).
#[cfg(not(kani))]
pub fn replay_run(inputs: Vec<Vec<u8>>, f: fn()) -> (bool, String) {
    imp::INPUTS.with(|i| *i.borrow_mut() = inputs.into());
    imp::NOTES.with(|n| n.borrow_mut().clear());
    let prev = std::panic::take_hook();
    std::panic::set_hook(Box::new(|_| {}));
    let r = std::panic::catch_unwind(f);
    std::panic::set_hook(prev);
    let notes = imp::NOTES.with(|n| n.borrow().join(" | "));
    match r {
        Ok(()) => (false, format!("harness returned normally; notes: {}", notes)),
        Err(e) => {
            if let Some(s) = e.downcast_ref::<&str>() {
                if *s == imp::ASSUME_FAILED || *s == imp::INPUT_EXHAUSTED {
                    return (false, format!("{}; notes: {}", s, notes));
                }
                return (true, format!("panic: {}; notes: {}", s, notes));
            }
            if let Some(s) = e.downcast_ref::<String>() {
                return (true, format!("panic: {}; notes: {}", s, notes));
            }
            (true, format!("panic (non-string payload); notes: {}", notes))
        }
    }
}

/// Parses the replay file format written by the engine:
/// line 1: harness name; following lines: space separated decimal bytes of one draw each.
#[cfg(not(kani))]
pub fn replay_load() -> Option<(String, Vec<Vec<u8>>)> {
    let p = std::env::var("VERIF_REPLAY_FILE").ok()?;
    let s = std::fs::read_to_string(p).ok()?;
    let mut lines = s.lines();
    let name = lines.next()?.trim().to_string();
    let mut v = Vec::new();
    for l in lines {
        let l = l.trim();
        if l.is_empty() {
            v.push(Vec::new());
            continue;
        }
        if l.starts_with('#') {
            continue;
        }
        v.push(l.split_whitespace().map(|x| x.parse::<u8>().unwrap()).collect());
    }
    Some((name, v))
}

/// Entry used by each harness file's `verif_replay_entry` test.
#[cfg(not(kani))]
pub fn replay_dispatch(table: &[(&str, fn())]) {
    let (name, inputs) = match replay_load() {
        Some(x) => x,
        None => return,
    };
    for (n, f) in table {
        if *n == name {
            let (rep, msg) = replay_run(inputs.clone(), *f);
            println!("VK_REPLAY_RESULT harness={} reproduced={} {}", name, rep, msg.replace('\n', " "));
        }
    }
}

/// A Kani proof harness with the full environment model set applied (DESIGN 2.2):
/// fmt::format, bumpalo allocation, rust_decimal arithmetic/rounding/comparison.
/// Natively (replay) it is a plain function running against the real crates.
#[macro_export]
macro_rules! vk_proof_models {
    ($(#[$extra:meta])* unwind $n:literal; fn $name:ident() $body:block) => {
        $(#[$extra])*
        #[cfg_attr(kani, kani::proof)]
        #[cfg_attr(kani, kani::unwind($n))]
        #[cfg_attr(kani, kani::stub(alloc::fmt::format, crate::verif_env::fmt_format_stub))]
        #[cfg_attr(kani, kani::stub(bumpalo::Bump::alloc_layout, crate::verif_bump::bump_alloc_layout_stub))]
        #[cfg_attr(kani, kani::stub(bumpalo::Bump::try_alloc_layout, crate::verif_bump::bump_try_alloc_layout_stub))]
        #[cfg_attr(kani, kani::stub(<&rust_decimal::Decimal as core::ops::Add<&rust_decimal::Decimal>>::add, crate::verif_dec::add_ref))]
        #[cfg_attr(kani, kani::stub(<&rust_decimal::Decimal as core::ops::Sub<&rust_decimal::Decimal>>::sub, crate::verif_dec::sub_ref))]
        #[cfg_attr(kani, kani::stub(<&rust_decimal::Decimal as core::ops::Mul<&rust_decimal::Decimal>>::mul, crate::verif_dec::mul_ref))]
        #[cfg_attr(kani, kani::stub(<&rust_decimal::Decimal as core::ops::Div<&rust_decimal::Decimal>>::div, crate::verif_dec::div_ref))]
        #[cfg_attr(kani, kani::stub(rust_decimal::Decimal::checked_add, crate::verif_dec::checked_add))]
        #[cfg_attr(kani, kani::stub(rust_decimal::Decimal::checked_sub, crate::verif_dec::checked_sub))]
        #[cfg_attr(kani, kani::stub(rust_decimal::Decimal::checked_mul, crate::verif_dec::checked_mul))]
        #[cfg_attr(kani, kani::stub(rust_decimal::Decimal::checked_div, crate::verif_dec::checked_div))]
        #[cfg_attr(kani, kani::stub(rust_decimal::Decimal::round_dp_with_strategy, crate::verif_dec::round_dp_with_strategy))]
        #[cfg_attr(kani, kani::stub(rust_decimal::ops::cmp::cmp_impl, crate::verif_dec::cmp_impl))]
        pub fn $name() $body
    };
}

/// Proof harness with only the fmt::format stub.
#[macro_export]
macro_rules! vk_proof {
    ($(#[$extra:meta])* unwind $n:literal; fn $name:ident() $body:block) => {
        $(#[$extra])*
        #[cfg_attr(kani, kani::proof)]
        #[cfg_attr(kani, kani::unwind($n))]
        #[cfg_attr(kani, kani::stub(alloc::fmt::format, crate::verif_env::fmt_format_stub))]
        pub fn $name() $body
    };
}

/// Turns on symbolic map iteration order (Kani) — no-op natively, where the real HashMap's
/// order is whatever the process' RandomState gives.
#[inline(always)]
pub fn order_nondet(_on: bool) {
    #[cfg(kani)]
    crate::verif_map::set_order_nondet(_on);
}


/// vk_proof_models without the fmt::format stub (for harnesses whose subject is formatted text).
#[macro_export]
macro_rules! vk_proof_models_fmt {
    ($(#[$extra:meta])* unwind $n:literal; fn $name:ident() $body:block) => {
        $(#[$extra])*
        #[cfg_attr(kani, kani::proof)]
        #[cfg_attr(kani, kani::unwind($n))]
        #[cfg_attr(kani, kani::stub(bumpalo::Bump::alloc_layout, crate::verif_bump::bump_alloc_layout_stub))]
        #[cfg_attr(kani, kani::stub(bumpalo::Bump::try_alloc_layout, crate::verif_bump::bump_try_alloc_layout_stub))]
        #[cfg_attr(kani, kani::stub(<&rust_decimal::Decimal as core::ops::Add<&rust_decimal::Decimal>>::add, crate::verif_dec::add_ref))]
        #[cfg_attr(kani, kani::stub(<&rust_decimal::Decimal as core::ops::Sub<&rust_decimal::Decimal>>::sub, crate::verif_dec::sub_ref))]
        #[cfg_attr(kani, kani::stub(rust_decimal::ops::cmp::cmp_impl, crate::verif_dec::cmp_impl))]
        #[cfg_attr(kani, kani::stub(<rust_decimal::Decimal as core::fmt::Display>::fmt, crate::verif_dec::display_fmt_tiny))]
        #[cfg_attr(kani, kani::stub(core::slice::sort::unstable::sort, crate::verif_env::unstable_sort_model))]
        pub fn $name() $body
    };
}


/// vk_proof_models plus the size-class allocator model (models/verif_alloc.rs): for harnesses in which
/// a `Vec` grows after paths were merged (symbolic capacity => symbolic allocation size otherwise).
#[macro_export]
macro_rules! vk_proof_models_a {
    ($(#[$extra:meta])* unwind $n:literal; fn $name:ident() $body:block) => {
        $crate::vk_proof_models! {
            $(#[$extra])*
            #[cfg_attr(kani, kani::stub(alloc::alloc::alloc, crate::verif_alloc::alloc_stub))]
            #[cfg_attr(kani, kani::stub(alloc::alloc::dealloc_nonnull, crate::verif_alloc::dealloc_nonnull_stub))]
            #[cfg_attr(kani, kani::stub(alloc::alloc::realloc_nonnull, crate::verif_alloc::realloc_nonnull_stub))]
            unwind $n; fn $name() $body
        }
    };
}
